//! Real local sockets: C13 (wire bytes), C14 (sink telemetry) and the socket
//! seams of C05/C06/C07 (buffered UDP / Unix sinks judged by the trace oracle).

use crate::driver::{Campaign, Ctx, Outcome, Tier};
use crate::util::{self, catch};
use crate::writer::oracle::{self, Attempt, ErrTok, OpKind, OpResult, OpTrace, Rule, SeamInfo};
use cadence::{BufferedUdpMetricSink, BufferedUnixMetricSink, MetricSink, QueuingMetricSink, SinkStats, UdpMetricSink, UnixMetricSink};
use proptest::prelude::*;
use serde::{Deserialize, Serialize};
use std::io;
use std::net::{SocketAddr, UdpSocket};
use std::os::unix::net::UnixDatagram;
use std::panic::RefUnwindSafe;
use std::path::PathBuf;
use std::sync::atomic::{AtomicU64, AtomicUsize, Ordering};
use std::sync::{Arc, Mutex};
use std::time::{Duration, Instant};

#[derive(Serialize, Deserialize, Clone, Copy, Debug, PartialEq, Eq)]
pub enum Transport {
    Udp,
    Unix,
}

#[derive(Serialize, Deserialize, Clone, Debug, PartialEq, Eq)]
pub enum SOp {
    Emit(String),
    /// emit a metric of exactly this many bytes (content derived from the length)
    EmitSized(u32),
    Flush,
    /// Unix only: fill the receiver's queue so that a non-blocking send gets EAGAIN
    Clog,
    Unclog,
    /// Unix only: close the receiving socket (ECONNREFUSED) / bind it again
    CloseRx,
    ReopenRx,
    /// Unix only: a new receiver takes over the path while the old socket stays
    /// open (socket file rotated): everything must go to the new one
    RotateRx,
}

#[derive(Serialize, Deserialize, Clone, Debug)]
pub struct SockCase {
    pub transport: Transport,
    /// None = unbuffered sink, Some(None) = buffered with the default constructor,
    /// Some(Some(cap)) = buffered with_capacity
    pub buffered: Option<Option<usize>>,
    pub nonblocking: bool,
    /// wrap the sink in a QueuingMetricSink (stats must read the same)
    pub queued: bool,
    /// address form for UDP: 0 = SocketAddr, 1 = "ip:port" string, 2 = slice [target, decoy]
    pub addr_form: u8,
    /// form of the Unix socket path handed to the constructor: 0 = absolute as bound,
    /// 1 = absolute padded with "/." segments to the longest allowed length (107 bytes),
    /// 2 = relative to the working directory, 3 = relative and padded to 107 bytes,
    /// 4 = a path that does not fit into sockaddr_un (>= 108 bytes), 5 = a path with an
    /// interior NUL: no receiver can exist there, every send must fail and be accounted for,
    /// 6 = a name that is not valid UTF-8 (symlink to the socket file)
    #[serde(default)]
    pub path_form: u8,
    pub ops: Vec<SOp>,
}

pub fn path_unusable(form: u8) -> bool {
    matches!(form % 7, 4 | 5)
}

/// The same socket file spelled differently (see `SockCase::path_form`); falls back
/// to the absolute path where a form cannot be built.
fn spell_path(path: &std::path::Path, form: u8) -> PathBuf {
    const MAX: usize = 107; // sun_path holds 108 bytes including the terminating NUL
    let abs = match path.to_str() {
        Some(a) if a.starts_with('/') => a.to_string(),
        _ => return path.to_path_buf(),
    };
    let (dir, file) = match abs.rsplit_once('/') {
        Some(x) => x,
        None => return path.to_path_buf(),
    };
    let pad = |prefix: &str| -> Option<String> {
        // prefix + dir + ("/." * k) [+ "/"] + "/" + file  ==  MAX bytes
        let base = prefix.len() + dir.len() + 1 + file.len();
        if base > MAX {
            return None;
        }
        let extra = MAX - base;
        let mut out = String::with_capacity(MAX);
        out.push_str(prefix);
        out.push_str(dir);
        for _ in 0..extra / 2 {
            out.push_str("/.");
        }
        if extra % 2 == 1 {
            out.push('/');
        }
        out.push('/');
        out.push_str(file);
        Some(out)
    };
    let rel_prefix = || -> Option<String> {
        let cwd = std::env::current_dir().ok()?;
        let depth = cwd.components().filter(|c| matches!(c, std::path::Component::Normal(_))).count();
        let mut p = String::new();
        for _ in 0..depth {
            p.push_str("../");
        }
        // "../../" + "tmp/x" : drop the leading '/' of the absolute directory
        p.pop();
        Some(p)
    };
    match form % 7 {
        6 => {
            // a name that is not valid UTF-8 (a symlink to the socket file): paths are bytes
            use std::os::unix::ffi::OsStrExt;
            let link = std::path::Path::new(dir).join(std::ffi::OsStr::from_bytes(b"m\xe9triques\xff.sock"));
            let _ = std::fs::remove_file(&link);
            match std::os::unix::fs::symlink(file, &link) {
                Ok(()) => link,
                Err(_) => path.to_path_buf(),
            }
        }
        4 => PathBuf::from(format!("{}/{}", dir, "x".repeat(MAX + 13 - dir.len().min(MAX)))),
        5 => PathBuf::from(format!("{}/rx\0.sock", dir)),
        1 => pad("").map(PathBuf::from).unwrap_or_else(|| path.to_path_buf()),
        2 => match rel_prefix() {
            Some(p) if p.len() + abs.len() <= MAX => PathBuf::from(format!("{}{}", p, abs)),
            _ => path.to_path_buf(),
        },
        3 => match rel_prefix().and_then(|p| pad(&p)) {
            Some(s) => PathBuf::from(s),
            None => path.to_path_buf(),
        },
        _ => path.to_path_buf(),
    }
}

fn sized_metric(n: usize) -> String {
    // deterministic content, ASCII, no newline so that sizes are exact
    let pat = b"abcdefghijklmnopqrstuvwxyz0123456789";
    let mut s = String::with_capacity(n);
    for i in 0..n {
        s.push(pat[(i * 7 + n) % pat.len()] as char);
    }
    s
}

// ---------------------------------------------------------------------------
// receiving side

static DIR_COUNTER: AtomicU64 = AtomicU64::new(0);

struct TempDir(PathBuf);
impl TempDir {
    fn new() -> io::Result<TempDir> {
        let n = DIR_COUNTER.fetch_add(1, Ordering::Relaxed);
        let p = std::env::temp_dir().join(format!("verif-sock-{}-{}", std::process::id(), n));
        std::fs::create_dir_all(&p)?;
        Ok(TempDir(p))
    }
}
impl Drop for TempDir {
    fn drop(&mut self) {
        let _ = std::fs::remove_dir_all(&self.0);
    }
}

enum Rx {
    Udp {
        target: UdpSocket,
        decoy: UdpSocket,
    },
    Unix {
        _dir: TempDir,
        path: PathBuf,
        decoy_path: PathBuf,
        target: Option<UnixDatagram>,
        decoy: UnixDatagram,
        filler: UnixDatagram,
        clogged: bool,
        /// former owners of the path, still open
        retired: Vec<UnixDatagram>,
    },
}

const FILLER: &[u8] = b"\xff\xfeverif-filler";

impl Rx {
    fn new(t: Transport) -> io::Result<Rx> {
        match t {
            Transport::Udp => {
                let target = UdpSocket::bind("127.0.0.1:0")?;
                target.set_nonblocking(true)?;
                let decoy = UdpSocket::bind("127.0.0.1:0")?;
                decoy.set_nonblocking(true)?;
                Ok(Rx::Udp { target, decoy })
            }
            Transport::Unix => {
                let dir = TempDir::new()?;
                let path = dir.0.join("rx.sock");
                let decoy_path = dir.0.join("decoy.sock");
                let target = UnixDatagram::bind(&path)?;
                target.set_nonblocking(true)?;
                let decoy = UnixDatagram::bind(&decoy_path)?;
                decoy.set_nonblocking(true)?;
                let filler = UnixDatagram::unbound()?;
                filler.set_nonblocking(true)?;
                Ok(Rx::Unix {
                    _dir: dir,
                    path,
                    decoy_path,
                    target: Some(target),
                    decoy,
                    filler,
                    clogged: false,
                    retired: Vec::new(),
                })
            }
        }
    }

    fn recv_all(&self, decoy: bool) -> Vec<Vec<u8>> {
        let mut out = Vec::new();
        let mut buf = vec![0u8; 262_144];
        loop {
            let r = match (self, decoy) {
                (Rx::Udp { target, .. }, false) => target.recv(&mut buf),
                (Rx::Udp { decoy, .. }, true) => decoy.recv(&mut buf),
                (Rx::Unix { target, .. }, false) => match target {
                    Some(t) => t.recv(&mut buf),
                    None => return out,
                },
                (Rx::Unix { decoy, .. }, true) => decoy.recv(&mut buf),
            };
            match r {
                Ok(n) => out.push(buf[..n].to_vec()),
                Err(_) => return out,
            }
        }
    }

    /// drain the target; wait (grace) until at least `expect` datagrams arrived.
    /// While clogged nothing is drained (nothing can arrive either).
    fn drain(&self, expect: usize, grace: Duration) -> Vec<Vec<u8>> {
        self.drain_ex(expect, grace, false)
    }

    /// `settle`: no reliable expectation is available (UDP only): poll a little
    /// longer before concluding that nothing (more) was sent
    fn drain_ex(&self, expect: usize, grace: Duration, settle: bool) -> Vec<Vec<u8>> {
        if let Rx::Unix { clogged: true, .. } = self {
            return Vec::new();
        }
        let mut out = self.recv_all(false);
        if settle {
            if let Rx::Udp { .. } = self {
                std::thread::sleep(Duration::from_micros(300));
                out.extend(self.recv_all(false));
            }
        }
        if out.len() < expect {
            let deadline = Instant::now() + grace;
            while out.len() < expect && Instant::now() < deadline {
                std::thread::sleep(Duration::from_micros(100));
                out.extend(self.recv_all(false));
            }
        }
        out
    }

    fn clog(&mut self) {
        if let Rx::Unix { filler, path, clogged, target, .. } = self {
            if target.is_none() {
                return;
            }
            for _ in 0..4096 {
                if filler.send_to(FILLER, &*path).is_err() {
                    break;
                }
            }
            *clogged = true;
        }
    }

    /// returns non-filler datagrams found while unclogging (must be none)
    fn unclog(&mut self) -> Vec<Vec<u8>> {
        let mut stray = Vec::new();
        if let Rx::Unix { clogged, .. } = self {
            if *clogged {
                *clogged = false;
                for d in self.recv_all(false) {
                    if d != FILLER {
                        stray.push(d);
                    }
                }
            }
        }
        stray
    }

    fn is_clogged(&self) -> bool {
        matches!(self, Rx::Unix { clogged: true, .. })
    }

    fn is_closed(&self) -> bool {
        matches!(self, Rx::Unix { target: None, .. })
    }

    fn close_rx(&mut self) {
        if let Rx::Unix { target, clogged, .. } = self {
            *target = None;
            *clogged = false;
        }
    }

    fn rotate_rx(&mut self) {
        if let Rx::Unix { target, path, retired, clogged, .. } = self {
            if *clogged {
                return;
            }
            if let Some(old) = target.take() {
                retired.push(old);
            }
            let _ = std::fs::remove_file(&*path);
            if let Ok(t) = UnixDatagram::bind(&*path) {
                let _ = t.set_nonblocking(true);
                *target = Some(t);
            }
        }
    }

    /// datagrams that reached a socket which no longer owns the path
    fn retired_received(&self) -> usize {
        let mut n = 0;
        if let Rx::Unix { retired, .. } = self {
            let mut buf = vec![0u8; 65536];
            for r in retired {
                while r.recv(&mut buf).is_ok() {
                    n += 1;
                }
            }
        }
        n
    }

    fn reopen_rx(&mut self) {
        if let Rx::Unix { target, path, .. } = self {
            if target.is_none() {
                let _ = std::fs::remove_file(&*path);
                if let Ok(t) = UnixDatagram::bind(&*path) {
                    let _ = t.set_nonblocking(true);
                    *target = Some(t);
                }
            }
        }
    }
}

// ---------------------------------------------------------------------------
// recording wrapper (used under the queuing sink so that the harness knows when
// the inner emit has returned and with what result)

pub struct Recording<S> {
    // field order matters: `inner` is dropped (and a buffered sink flushes)
    // before `released` signals
    pub inner: S,
    pub log: Arc<Mutex<Vec<Result<usize, ErrTok>>>>,
    pub done: Arc<AtomicUsize>,
    pub released: ReleaseSignal,
}

pub struct ReleaseSignal(pub Arc<AtomicUsize>);

impl Drop for ReleaseSignal {
    fn drop(&mut self) {
        self.0.fetch_add(1, Ordering::SeqCst);
    }
}

impl<S> RefUnwindSafe for Recording<S> {}

impl<S: MetricSink> MetricSink for Recording<S> {
    fn emit(&self, metric: &str) -> io::Result<usize> {
        let r = self.inner.emit(metric);
        self.log.lock().unwrap().push(match &r {
            Ok(n) => Ok(*n),
            Err(e) => Err(crate::writer::seams::errtok(e)),
        });
        self.done.fetch_add(1, Ordering::SeqCst);
        r
    }
    fn flush(&self) -> io::Result<()> {
        self.inner.flush()
    }
    fn stats(&self) -> SinkStats {
        self.inner.stats()
    }
}


type DynSink = Box<dyn MetricSink + Send + Sync + RefUnwindSafe>;

struct BoxSink(DynSink);
impl MetricSink for BoxSink {
    fn emit(&self, m: &str) -> io::Result<usize> {
        self.0.emit(m)
    }
    fn flush(&self) -> io::Result<()> {
        self.0.flush()
    }
    fn stats(&self) -> SinkStats {
        self.0.stats()
    }
}

fn build_sink(case: &SockCase, rx: &Rx) -> Result<DynSink, String> {
    match rx {
        Rx::Udp { target, decoy } => {
            let sock = UdpSocket::bind("127.0.0.1:0").map_err(|e| e.to_string())?;
            sock.set_nonblocking(case.nonblocking).map_err(|e| e.to_string())?;
            let addr: SocketAddr = target.local_addr().map_err(|e| e.to_string())?;
            let decoy_addr: SocketAddr = decoy.local_addr().map_err(|e| e.to_string())?;
            let addr_str = addr.to_string();
            let pair = [addr, decoy_addr];
            macro_rules! mk {
                ($a:expr) => {
                    match case.buffered {
                        None => UdpMetricSink::from($a, sock).map(|s| Box::new(s) as DynSink),
                        Some(None) => BufferedUdpMetricSink::from($a, sock).map(|s| Box::new(s) as DynSink),
                        Some(Some(c)) => BufferedUdpMetricSink::with_capacity($a, sock, c).map(|s| Box::new(s) as DynSink),
                    }
                };
            }
            let r = match case.addr_form % 3 {
                0 => mk!(addr),
                1 => mk!(addr_str.as_str()),
                _ => mk!(&pair[..]),
            };
            r.map_err(|e| format!("constructor failed: {}", e))
        }
        Rx::Unix { path, .. } => {
            let sock = UnixDatagram::unbound().map_err(|e| e.to_string())?;
            sock.set_nonblocking(case.nonblocking).map_err(|e| e.to_string())?;
            let spelled = spell_path(path, case.path_form);
            let path = &spelled;
            Ok(match case.buffered {
                None => Box::new(UnixMetricSink::from(path, sock)) as DynSink,
                Some(None) => Box::new(BufferedUnixMetricSink::from(path, sock)) as DynSink,
                Some(Some(c)) => Box::new(BufferedUnixMetricSink::with_capacity(path, sock, c)) as DynSink,
            })
        }
    }
}

fn eq_stats(a: &SinkStats, b: &SinkStats) -> bool {
    a.bytes_sent == b.bytes_sent && a.packets_sent == b.packets_sent && a.bytes_dropped == b.bytes_dropped && a.packets_dropped == b.packets_dropped
}

#[derive(Clone, Debug, Default)]
pub struct SockStats {
    pub datagrams: usize,
    pub failed_calls: usize,
    pub non_ascii_or_big: bool,
    pub multi_datagram_buffered: bool,
    pub sent_and_dropped: bool,
    pub decoy_checked: bool,
    pub stats_reads: usize,
}

#[derive(Clone, Copy, Debug, PartialEq, Eq, Hash)]
pub enum SRule {
    /// C13
    Wire,
    /// C14
    Telemetry,
    /// C05/C06/C07/C19 through the trace oracle
    Trace(Rule),
    Panic,
}

pub struct SockRun {
    pub findings: Vec<(SRule, String)>,
    pub stats: SockStats,
    pub writer_stats: Option<oracle::Stats>,
    pub inconclusive: Option<String>,
}

/// how many successful datagrams the reference (MultiLineWriter over a scripted
/// writer) makes per operation for this history — used only as a *hint for how
/// long to poll* a UDP receiver, never as the oracle
fn datagram_hint(cap: usize, ops: &[(Option<Vec<u8>>, bool)]) -> Vec<usize> {
    use crate::writer::case::{WOp, WriterCase};
    let wc = WriterCase {
        cap,
        term: "\n".into(),
        ops: ops
            .iter()
            .map(|(m, _)| match m {
                Some(b) => WOp::Emit(String::from_utf8_lossy(b).into_owned()),
                None => WOp::Flush,
            })
            .collect(),
        faults: vec![],
    };
    crate::writer::seams::run_mlw(&wc).iter().map(|t| t.attempts.len()).collect()
}

pub fn run_case(case: &SockCase, ctx: &Ctx) -> SockRun {
    let w = ctx.w();
    let grace = Duration::from_millis(if ctx.shrinking { 150 } else { 2000 });
    let mut findings: Vec<(SRule, String)> = Vec::new();
    let mut st = SockStats::default();
    let mut rx = match Rx::new(case.transport) {
        Ok(r) => r,
        Err(e) => {
            return SockRun {
                findings,
                stats: st,
                writer_stats: None,
                inconclusive: Some(format!("cannot set up receiver: {}", e)),
            }
        }
    };
    let inner = match catch(|| build_sink(case, &rx)) {
        Ok(Ok(s)) => s,
        Ok(Err(e)) => {
            return SockRun {
                findings,
                stats: st,
                writer_stats: None,
                inconclusive: Some(e),
            }
        }
        Err(p) => {
            findings.push((SRule::Panic, format!("sink constructor panicked: {}", p)));
            return SockRun {
                findings,
                stats: st,
                writer_stats: None,
                inconclusive: None,
            };
        }
    };
    // a path that cannot be a socket address: nothing is bound there, whatever the history says
    let unusable = case.transport == Transport::Unix && path_unusable(case.path_form);
    if unusable {
        rx.close_rx();
    }
    let log = Arc::new(Mutex::new(Vec::new()));
    let done = Arc::new(AtomicUsize::new(0));
    let released = Arc::new(AtomicUsize::new(0));
    let rec = Recording {
        inner: BoxSink(inner),
        log: log.clone(),
        done: done.clone(),
        released: ReleaseSignal(released.clone()),
    };
    let sink: DynSink = if case.queued { Box::new(crate::queue::build_queuing(rec, util::hash_json(case))) } else { Box::new(rec) };

    let cap = match case.buffered {
        None => 0,
        Some(None) => 512,
        Some(Some(c)) => c,
    };
    let buffered = case.buffered.is_some();
    let size_limit: usize = match case.transport {
        Transport::Udp => 65_507,
        Transport::Unix => 200_000,
    };
    // materialise metrics
    let metrics: Vec<Option<Vec<u8>>> = case
        .ops
        .iter()
        .map(|op| match op {
            SOp::Emit(s) => Some(s.as_bytes().to_vec()),
            SOp::EmitSized(n) => Some(sized_metric(*n as usize).into_bytes()),
            _ => None,
        })
        .collect();
    let fault_free = !unusable
        && !case.ops.iter().any(|o| matches!(o, SOp::Clog | SOp::CloseRx | SOp::RotateRx))
        && !metrics.iter().flatten().any(|m| m.len() > 65_000);
    let hint: Vec<usize> = if buffered && fault_free {
        let ops: Vec<(Option<Vec<u8>>, bool)> = case
            .ops
            .iter()
            .zip(metrics.iter())
            .filter(|(o, _)| matches!(o, SOp::Emit(_) | SOp::EmitSized(_) | SOp::Flush))
            .map(|(_, m)| (m.clone(), true))
            .collect();
        datagram_hint(cap, &ops)
    } else {
        Vec::new()
    };

    // ground truth for the telemetry
    let mut truth = SinkStats::default();
    let mut pending_bytes: usize = 0; // bytes buffered according to the results seen
    let mut traces: Vec<OpTrace> = Vec::new();
    let mut hint_i = 0usize;
    let mut emitted_n = 0usize;
    let mut panicked = false;
    // unbuffered emits that returned Ok while the receiver queue was full: their
    // datagrams (if the kernel really took them) are reconciled when unclogging
    let mut clogged_ok: Vec<Vec<u8>> = Vec::new();

    for (op, metric) in case.ops.iter().zip(metrics.iter()) {
        match op {
            SOp::Emit(_) | SOp::EmitSized(_) => {
                let m = metric.as_ref().unwrap();
                let text = std::str::from_utf8(m).unwrap();
                if !text.is_ascii() || m.len() > 512 {
                    st.non_ascii_or_big = true;
                }
                let r = catch(|| sink.emit(text));
                emitted_n += 1;
                let inner_res: Result<usize, ErrTok> = if case.queued {
                    match r {
                        Ok(Ok(n)) if n == m.len() => {}
                        Ok(other) => findings.push((SRule::Wire, format!("queuing emit returned {:?} for a {}-byte metric", other.map_err(|e| e.to_string()), m.len()))),
                        Err(ref p) => {
                            findings.push((SRule::Panic, format!("emit panicked: {}", p)));
                            panicked = true;
                        }
                    }
                    if panicked {
                        break;
                    }
                    let deadline = Instant::now() + w;
                    while done.load(Ordering::SeqCst) < emitted_n && Instant::now() < deadline {
                        std::thread::yield_now();
                    }
                    if done.load(Ordering::SeqCst) < emitted_n {
                        findings.push((SRule::Telemetry, "queued metric did not reach the socket sink within W".into()));
                        panicked = true;
                        break;
                    }
                    log.lock().unwrap()[emitted_n - 1].clone()
                } else {
                    match r {
                        Ok(Ok(n)) => Ok(n),
                        Ok(Err(e)) => Err(crate::writer::seams::errtok(&e)),
                        Err(p) => {
                            findings.push((SRule::Panic, format!("emit panicked: {}", p)));
                            panicked = true;
                            break;
                        }
                    }
                };
                let expect = if buffered {
                    let e = hint.get(hint_i).copied().unwrap_or(0);
                    hint_i += 1;
                    e
                } else if inner_res.is_ok() {
                    1
                } else {
                    0
                };
                let got = rx.drain_ex(expect, grace, buffered && !fault_free);
                st.datagrams += got.len();
                if inner_res.is_err() {
                    st.failed_calls += 1;
                }
                if !buffered {
                    // C13: exactly one datagram per Ok emit, payload == metric bytes
                    match &inner_res {
                        Ok(n) => {
                            if *n != m.len() {
                                findings.push((SRule::Wire, format!("emit of {} bytes returned Ok({})", m.len(), n)));
                            }
                            if rx.is_closed() {
                                findings.push((SRule::Wire, "emit returned Ok although no receiver is bound at the path (nothing can have been sent)".into()));
                                findings.push((SRule::Telemetry, "emit returned Ok although no receiver is bound at the path".into()));
                            } else if rx.is_clogged() {
                                clogged_ok.push(m.clone());
                            } else {
                                if got.len() != 1 {
                                    findings.push((SRule::Wire, format!("one emit returned Ok but {} datagrams arrived at the target", got.len())));
                                } else if got[0] != *m {
                                    findings.push((
                                        SRule::Wire,
                                        format!("datagram payload ({} bytes) differs from the metric ({} bytes): got '{}'", got[0].len(), m.len(), show(&got[0])),
                                    ));
                                }
                            }
                            if !rx.is_clogged() {
                                truth.packets_sent += 1;
                                truth.bytes_sent += *n as u64;
                            }
                        }
                        Err(e) => {
                            if !got.is_empty() {
                                findings.push((SRule::Wire, format!("emit returned an error but {} datagram(s) arrived", got.len())));
                            }
                            if rx.is_clogged() && !rx.is_closed() && m.len() <= size_limit && e.kind != io::ErrorKind::WouldBlock {
                                findings.push((
                                    SRule::Wire,
                                    format!("the receiver queue is full (the socket's error is EAGAIN/WouldBlock) but emit returned {:?}", e.kind),
                                ));
                            }
                            if !rx.is_closed() && !rx.is_clogged() && m.len() <= size_limit {
                                findings.push((
                                    SRule::Wire,
                                    format!(
                                        "emit of a {}-byte metric failed with {:?} although a receiver is bound at the address given at construction and is idle",
                                        m.len(),
                                        e.kind
                                    ),
                                ));
                            }
                            truth.packets_dropped += 1;
                            truth.bytes_dropped += m.len() as u64;
                        }
                    }
                } else {
                    // buffered: telemetry ground truth from received datagrams + Err results
                    for d in &got {
                        truth.packets_sent += 1;
                        truth.bytes_sent += d.len() as u64;
                    }
                    let bypass = m.len() + 1 > cap;
                    let sent_bytes: usize = got.iter().map(|d| d.len()).sum();
                    match &inner_res {
                        Ok(_) => {
                            if bypass {
                                // pending unchanged (unless flushed too)
                                let own = if got.iter().any(|d| d == m) { m.len() } else { 0 };
                                pending_bytes = pending_bytes.saturating_sub(sent_bytes.saturating_sub(own));
                            } else {
                                pending_bytes = (pending_bytes + m.len() + 1).saturating_sub(sent_bytes);
                            }
                        }
                        Err(e) => {
                            if rx.is_clogged() && !rx.is_closed() && m.len().max(pending_bytes) <= size_limit && e.kind != io::ErrorKind::WouldBlock {
                                let msg = format!("the receiver queue is full (the socket's error is EAGAIN/WouldBlock) but the buffered emit returned {:?}", e.kind);
                                findings.push((SRule::Wire, msg.clone()));
                                findings.push((SRule::Trace(Rule::Fault), msg));
                            }
                            if !rx.is_closed() && !rx.is_clogged() && m.len().max(pending_bytes) <= size_limit {
                                findings.push((
                                    SRule::Wire,
                                    format!("buffered emit failed with {:?} although a receiver is bound at the address given at construction and is idle", e.kind),
                                ));
                            }
                            truth.packets_dropped += 1;
                            // the refused datagram: the oversized metric itself, or everything
                            // pending (C05/C07: a flush carries all of it); with nothing pending
                            // only the metric's own line can have been attempted (write-through)
                            truth.bytes_dropped += if bypass {
                                m.len() as u64
                            } else if pending_bytes == 0 {
                                m.len() as u64 + 1
                            } else {
                                pending_bytes as u64
                            };
                        }
                    }
                    if got.len() >= 1 && st.datagrams >= 2 {
                        st.multi_datagram_buffered = true;
                    }
                }
                traces.push(OpTrace {
                    kind: OpKind::Emit(m.clone()),
                    attempts: got.into_iter().map(|bytes| Attempt { bytes, err: None }).collect(),
                    result: match inner_res {
                        Ok(n) => OpResult::Wrote(n),
                        Err(e) => OpResult::Err(e),
                    },
                });
            }
            SOp::Flush => {
                let r = catch(|| sink.flush());
                let expect = if buffered {
                    let e = hint.get(hint_i).copied().unwrap_or(0);
                    hint_i += 1;
                    e
                } else {
                    0
                };
                let got = rx.drain(expect, grace);
                st.datagrams += got.len();
                for d in &got {
                    truth.packets_sent += 1;
                    truth.bytes_sent += d.len() as u64;
                }
                let sent_bytes: usize = got.iter().map(|d| d.len()).sum();
                let result = match r {
                    Ok(Ok(())) => {
                        pending_bytes = pending_bytes.saturating_sub(sent_bytes);
                        OpResult::Flushed
                    }
                    Ok(Err(e)) => {
                        st.failed_calls += 1;
                        if buffered {
                            if rx.is_clogged() && !rx.is_closed() && pending_bytes <= size_limit && e.kind() != io::ErrorKind::WouldBlock {
                                let msg = format!("the receiver queue is full (the socket's error is EAGAIN/WouldBlock) but flush returned {:?}", e.kind());
                                findings.push((SRule::Wire, msg.clone()));
                                findings.push((SRule::Trace(Rule::Fault), msg));
                            }
                            if !rx.is_closed() && !rx.is_clogged() && pending_bytes <= size_limit {
                                findings.push((
                                    SRule::Wire,
                                    format!("flush failed with {:?} although a receiver is bound at the address given at construction and is idle", e.kind()),
                                ));
                            }
                            truth.packets_dropped += 1;
                            truth.bytes_dropped += pending_bytes as u64;
                        }
                        OpResult::Err(crate::writer::seams::errtok(&e))
                    }
                    Err(p) => {
                        findings.push((SRule::Panic, format!("flush panicked: {}", p)));
                        panicked = true;
                        break;
                    }
                };
                if !buffered && !got.is_empty() {
                    findings.push((SRule::Wire, "flush of an unbuffered sink sent a datagram".into()));
                }
                traces.push(OpTrace {
                    kind: OpKind::Flush,
                    attempts: got.into_iter().map(|bytes| Attempt { bytes, err: None }).collect(),
                    result,
                });
            }
            SOp::Clog => {
                if case.nonblocking {
                    rx.clog();
                }
            }
            SOp::Unclog => {
                let stray = rx.unclog();
                reconcile(&mut findings, &mut truth, &mut clogged_ok, stray, buffered);
            }
            SOp::CloseRx => {
                // whatever was "accepted" while clogged is lost with the socket: judge it first
                let stray = rx.unclog();
                reconcile(&mut findings, &mut truth, &mut clogged_ok, stray, buffered);
                rx.close_rx()
            }
            SOp::ReopenRx => {
                if !unusable {
                    rx.reopen_rx()
                }
            }
            SOp::RotateRx => {
                let stray = rx.unclog();
                reconcile(&mut findings, &mut truth, &mut clogged_ok, stray, buffered);
                if !unusable {
                    rx.rotate_rx()
                }
            }
        }
        let misdirected = rx.retired_received();
        if misdirected > 0 {
            findings.push((
                SRule::Wire,
                format!("{} datagram(s) were delivered to a socket that no longer owns the path given at construction", misdirected),
            ));
        }
        // telemetry at this quiescent point
        if matches!(op, SOp::Emit(_) | SOp::EmitSized(_) | SOp::Flush) {
            match catch(|| sink.stats()) {
                Ok(s) => {
                    st.stats_reads += 1;
                    let mut cmp = s.clone();
                    if !clogged_ok.is_empty() {
                        // arrivals of these are only known when the queue is drained again
                        cmp.packets_sent = truth.packets_sent;
                        cmp.bytes_sent = truth.bytes_sent;
                    }
                    if !eq_stats(&cmp, &truth) {
                        findings.push((
                            SRule::Telemetry,
                            format!(
                                "stats() = {{sent {} pkts / {} B, dropped {} pkts / {} B}} but the socket accepted {} datagrams / {} B and refused {} / {} B",
                                s.packets_sent,
                                s.bytes_sent,
                                s.packets_dropped,
                                s.bytes_dropped,
                                truth.packets_sent,
                                truth.bytes_sent,
                                truth.packets_dropped,
                                truth.bytes_dropped
                            ),
                        ));
                    }
                }
                Err(p) => findings.push((SRule::Panic, format!("stats() panicked: {}", p))),
            }
        }
        if truth.packets_sent > 0 && truth.packets_dropped > 0 {
            st.sent_and_dropped = true;
        }
    }
    // final drop
    if !panicked {
        let stray = rx.unclog();
        reconcile(&mut findings, &mut truth, &mut clogged_ok, stray, buffered);
        if !buffered {
            if let Ok(s) = catch(|| sink.stats()) {
                if !eq_stats(&s, &truth) {
                    findings.push((
                        SRule::Telemetry,
                        format!(
                            "final stats() = {{sent {} / {} B, dropped {} / {} B}} but {} datagrams / {} B arrived and {} / {} B were refused",
                            s.packets_sent, s.bytes_sent, s.packets_dropped, s.bytes_dropped, truth.packets_sent, truth.bytes_sent, truth.packets_dropped, truth.bytes_dropped
                        ),
                    ));
                }
            }
        }
        let r = catch(move || drop(sink));
        if case.queued {
            let deadline = Instant::now() + w;
            while released.load(Ordering::SeqCst) == 0 && Instant::now() < deadline {
                std::thread::yield_now();
            }
        }
        let expect = if buffered { hint.get(hint_i).copied().unwrap_or(0) } else { 0 };
        let got = rx.drain(expect, grace);
        st.datagrams += got.len();
        if !buffered && !got.is_empty() {
            findings.push((SRule::Wire, "dropping an unbuffered sink sent a datagram".into()));
        }
        traces.push(OpTrace {
            kind: OpKind::Drop,
            attempts: got.into_iter().map(|bytes| Attempt { bytes, err: None }).collect(),
            result: match r {
                Ok(()) => OpResult::None,
                Err(p) => OpResult::Panicked(p),
            },
        });
    } else {
        std::mem::forget(sink);
    }
    // decoy must have received nothing
    let stray = rx.recv_all(true);
    st.decoy_checked = true;
    if !stray.is_empty() {
        findings.push((SRule::Wire, format!("{} datagram(s) were sent to an address other than the one given at construction", stray.len())));
    }
    // buffered: trace oracle with "\n"
    let mut writer_stats = None;
    if buffered && !panicked {
        let receiver_may_fail_at_drop = matches!(&rx, Rx::Unix { target: None, .. });
        let v = oracle::judge(
            cap,
            b"\n",
            &traces,
            SeamInfo {
                failures_visible: false,
                fault_free,
                drop_may_fail_hidden: receiver_may_fail_at_drop || !fault_free,
            },
        );
        for f in &v.findings {
            findings.push((SRule::Trace(f.rule), format!("op #{}: {}", f.op, f.msg)));
            if matches!(f.rule, Rule::Framing | Rule::Conservation) {
                findings.push((SRule::Wire, format!("op #{}: {}", f.op, f.msg)));
            }
        }
        writer_stats = Some(v.stats);
    }
    SockRun {
        findings,
        stats: st,
        writer_stats,
        inconclusive: None,
    }
}

/// datagrams found when the clogged receiver queue is drained must be exactly
/// the metrics whose emit returned Ok while it was full
fn reconcile(findings: &mut Vec<(SRule, String)>, truth: &mut SinkStats, clogged_ok: &mut Vec<Vec<u8>>, stray: Vec<Vec<u8>>, buffered: bool) {
    if buffered {
        if !stray.is_empty() {
            findings.push((SRule::Wire, format!("{} datagram(s) arrived while the receiver queue was full", stray.len())));
        }
        return;
    }
    for d in &stray {
        truth.packets_sent += 1;
        truth.bytes_sent += d.len() as u64;
    }
    if stray != *clogged_ok {
        let m = format!(
            "{} emit(s) returned Ok while the receiver queue was full but {} datagram(s) had been accepted by the socket",
            clogged_ok.len(),
            stray.len()
        );
        findings.push((SRule::Wire, m.clone()));
        findings.push((SRule::Telemetry, m));
    }
    clogged_ok.clear();
}

fn show(b: &[u8]) -> String {
    let s = String::from_utf8_lossy(b);
    let s: String = s.chars().flat_map(|c| c.escape_default()).collect();
    if s.len() > 80 {
        format!("{}…({} bytes)", &s[..60], b.len())
    } else {
        s
    }
}

// ---------------------------------------------------------------------------
// strategies + campaign

fn metric_text() -> impl Strategy<Value = String> {
    prop_oneof![
        5 => "[a-z.]{1,12}:[0-9]{1,4}\\|(c|g|ms|h)",
        2 => "[a-zé日𝄞\\n ]{0,20}",
        1 => Just(String::new()),
        1 => Just("x".to_string()),
    ]
}

fn sized(cap: Option<usize>, transport: Transport, faults: bool) -> BoxedStrategy<u32> {
    let c = cap.unwrap_or(512) as u32;
    let big_max: u32 = match transport {
        Transport::Udp => 65_507,
        Transport::Unix => 100_000,
    };
    let over: BoxedStrategy<u32> = if faults {
        match transport {
            Transport::Udp => prop_oneof![Just(65_508u32), Just(70_000u32)].boxed(),
            Transport::Unix => prop_oneof![Just(212_993u32 + 1000), Just(300_000u32)].boxed(),
        }
    } else {
        Just(c).boxed()
    };
    prop_oneof![
        4 => Just(c.saturating_sub(1)),
        2 => Just(c.saturating_sub(2)),
        2 => Just(c),
        3 => 0..=(c + 2),
        3 => 0..=(c / 2 + 1),
        1 => prop::sample::select(vec![511u32, 512, 513, 1431, 1432, 1433, 8191, 8192]),
        1 => (big_max - 3)..=big_max,
        1 => over,
    ]
    .boxed()
}

#[derive(Clone, Copy, Debug)]
pub struct SGen {
    pub transport: Option<Transport>,
    pub buffered: Option<bool>,
    pub faults: bool,
    pub queued_p: f64,
    pub max_ops: usize,
}

/// capacities of the buffered socket sinks: small ones around the metric sizes, the default,
/// and (rarely) large ones up to the datagram limit
fn buffered_cap() -> BoxedStrategy<usize> {
    prop_oneof![
        10 => 5usize..40,
        10 => 40usize..200,
        10 => Just(512usize),
        10 => 0usize..5,
        1 => prop_oneof![Just(1432usize), 8190usize..8196, Just(16_384usize), Just(65_507usize)],
    ]
    .boxed()
}

pub fn sock_case(g: SGen) -> BoxedStrategy<SockCase> {
    let transport = match g.transport {
        Some(t) => Just(t).boxed(),
        None => prop_oneof![Just(Transport::Udp), Just(Transport::Unix)].boxed(),
    };
    let buffered = match g.buffered {
        Some(false) => Just(None).boxed(),
        Some(true) => prop_oneof![1 => Just(Some(None)), 6 => buffered_cap().prop_map(|c| Some(Some(c)))].boxed(),
        None => prop_oneof![
            2 => Just(None),
            1 => Just(Some(None)),
            4 => buffered_cap().prop_map(|c| Some(Some(c))),
        ]
        .boxed(),
    };
    (transport, buffered, any::<bool>(), prop::bool::weighted(g.queued_p), (0u8..3, prop_oneof![6 => Just(0u8), 2 => Just(1u8), 2 => Just(2u8), 2 => Just(3u8), 1 => Just(4u8), 1 => Just(5u8), 2 => Just(6u8)]))
        .prop_flat_map(move |(transport, buffered, nonblocking, queued, (addr_form, path_form))| {
            let cap = buffered.map(|b| b.unwrap_or(512));
            let fault_ops = g.faults && transport == Transport::Unix;
            let op = prop_oneof![
                5 => metric_text().prop_map(SOp::Emit),
                5 => sized(cap, transport, g.faults).prop_map(SOp::EmitSized),
                2 => Just(SOp::Flush),
                (if fault_ops { 2 } else { 0 }) => prop_oneof![Just(SOp::Clog), Just(SOp::CloseRx)],
                (if fault_ops { 2 } else { 0 }) => prop_oneof![Just(SOp::Unclog), Just(SOp::ReopenRx), Just(SOp::RotateRx)],
            ];
            (
                Just(transport),
                Just(buffered),
                Just(nonblocking || fault_ops),
                Just(queued),
                Just((addr_form, path_form)),
                prop::collection::vec(op, 0..=g.max_ops),
            )
        })
        .prop_map(|(transport, buffered, nonblocking, queued, (addr_form, path_form), ops)| SockCase {
            transport,
            buffered,
            nonblocking,
            queued,
            addr_form,
            path_form,
            ops,
        })
        .boxed()
}

pub struct SockCampaign {
    pub name: &'static str,
    pub focus: SRule,
    pub gen: SGen,
}

impl Campaign for SockCampaign {
    type Case = SockCase;
    fn name(&self) -> &'static str {
        self.name
    }
    fn max_shrink_iters(&self) -> u32 {
        60
    }
    fn strategy(&self, _tier: Tier) -> BoxedStrategy<SockCase> {
        sock_case(self.gen)
    }
    fn check(&self, case: &SockCase, ctx: &Ctx) -> Outcome {
        let run = run_case(case, ctx);
        if let Some(why) = run.inconclusive {
            util::mark_inconclusive(&why);
            return Outcome::ok();
        }
        let verdict = match run
            .findings
            .iter()
            .find(|f| (f.0 == self.focus || f.0 == SRule::Panic) && !crate::known::absorb(ctx.property, &f.1))
        {
            None => Ok(()),
            Some(f) => Err(f.1.clone()),
        };
        let mut classes: Vec<&'static str> = Vec::new();
        classes.push(match (case.transport, case.buffered.is_some()) {
            (Transport::Udp, false) => "udp unbuffered",
            (Transport::Udp, true) => "udp buffered",
            (Transport::Unix, false) => "unix unbuffered",
            (Transport::Unix, true) => "unix buffered",
        });
        if case.queued {
            classes.push("through a queuing sink");
        }
        if case.transport == Transport::Unix && path_unusable(case.path_form) {
            classes.push("unix path that cannot be a socket address (too long / interior NUL): every send fails");
        } else if case.transport == Transport::Unix && case.path_form % 7 != 0 {
            classes.push("unix path given in a relative, maximal-length (107 bytes) or non-UTF-8 spelling");
        }
        if run.stats.failed_calls > 0 {
            classes.push("socket refused a datagram");
        }
        if run.stats.sent_and_dropped {
            classes.push("sent and dropped datagrams in one history");
        }
        let nontrivial = match self.focus {
            SRule::Wire => run.stats.non_ascii_or_big || run.stats.multi_datagram_buffered,
            SRule::Telemetry => run.stats.sent_and_dropped,
            SRule::Trace(r) => run.writer_stats.as_ref().map_or(false, |s| crate::writer::nontrivial(r, s)),
            SRule::Panic => true,
        };
        Outcome {
            verdict,
            nontrivial,
            fingerprint: util::hash_json(case),
            classes,
        }
    }
}

// ---------------------------------------------------------------------------
// C13: address resolution corner (first address used, none → InvalidInput)

pub fn addr_resolution_checks() -> Vec<String> {
    match catch(addr_resolution_checks_inner) {
        Ok(v) => v,
        Err(p) => vec![format!("constructing a UDP sink from a ToSocketAddrs that yields no address panicked: {}", p)],
    }
}

fn addr_resolution_checks_inner() -> Vec<String> {
    let mut bad = Vec::new();
    let empty: [SocketAddr; 0] = [];
    let s = UdpSocket::bind("127.0.0.1:0").unwrap();
    match UdpMetricSink::from(&empty[..], s) {
        Err(e) if e.kind() == cadence::ErrorKind::InvalidInput => {}
        other => bad.push(format!("UdpMetricSink::from(no addresses) = {:?}", other.map(|_| "Ok").map_err(|e| e.to_string()))),
    }
    let s = UdpSocket::bind("127.0.0.1:0").unwrap();
    match BufferedUdpMetricSink::from(&empty[..], s) {
        Err(e) if e.kind() == cadence::ErrorKind::InvalidInput => {}
        other => bad.push(format!("BufferedUdpMetricSink::from(no addresses) = {:?}", other.map(|_| "Ok").map_err(|e| e.to_string()))),
    }
    bad
}

/// C14: the counters are 64-bit quantities - more than 4 GiB of refused (and, in the thorough tier,
/// accepted) datagrams on one sink must still add up exactly
pub fn counter_volume_checks(thorough: bool) -> Vec<String> {
    match catch(|| counter_volume_checks_inner(thorough)) {
        Ok(v) => v,
        Err(p) => vec![format!("the counter volume check panicked: {}", p)],
    }
}

fn counter_volume_checks_inner(thorough: bool) -> Vec<String> {
    let mut bad = Vec::new();
    let rx = match UdpSocket::bind("127.0.0.1:0") {
        Ok(r) => r,
        Err(_) => return bad,
    };
    let addr = rx.local_addr().unwrap();
    // refused: 4300 x 1 MiB (EMSGSIZE, nothing is copied)
    let sock = UdpSocket::bind("127.0.0.1:0").unwrap();
    let sink = UdpMetricSink::from(addr, sock).unwrap();
    let big = "x".repeat(1 << 20);
    let n = 4300u64;
    let mut errs = 0u64;
    for _ in 0..n {
        if sink.emit(&big).is_err() {
            errs += 1;
        }
    }
    let s = sink.stats();
    if errs == n && (s.packets_dropped, s.bytes_dropped, s.packets_sent, s.bytes_sent) != (n, n << 20, 0, 0) {
        bad.push(format!(
            "{} emits of 1 MiB each were refused (EMSGSIZE) on one UDP sink but stats() = dropped {} pkts / {} B, sent {} / {} B (expected {} / {} B dropped)",
            n, s.packets_dropped, s.bytes_dropped, s.packets_sent, s.bytes_sent, n, n << 20
        ));
    }
    if thorough {
        // accepted: 72_000 x 60_000 B = 4.32 GB handed to the loopback (the receiver is not read: the
        // kernel drops what does not fit, the sends succeed)
        let sock = UdpSocket::bind("127.0.0.1:0").unwrap();
        let sink = UdpMetricSink::from(addr, sock).unwrap();
        let m = "y".repeat(60_000);
        let (mut ok, mut okb, mut er, mut erb) = (0u64, 0u64, 0u64, 0u64);
        for _ in 0..72_000u64 {
            match sink.emit(&m) {
                Ok(k) => {
                    ok += 1;
                    okb += k as u64;
                }
                Err(_) => {
                    er += 1;
                    erb += m.len() as u64;
                }
            }
        }
        let s = sink.stats();
        if (s.packets_sent, s.bytes_sent, s.packets_dropped, s.bytes_dropped) != (ok, okb, er, erb) {
            bad.push(format!(
                "{} emits of 60000 B returned Ok ({} B) and {} Err ({} B) on one UDP sink but stats() = sent {} / {} B dropped {} / {} B",
                ok, okb, er, erb, s.packets_sent, s.bytes_sent, s.packets_dropped, s.bytes_dropped
            ));
        }
    }
    bad
}

/// C14 concurrent: threads on one unbuffered sink, totals exact after join
#[derive(Serialize, Deserialize, Clone, Debug)]
pub struct ConcSockCase {
    pub transport: Transport,
    pub threads: u8,
    pub per_thread: u16,
    /// every k-th emit is oversized (fails)
    pub fail_every: u8,
    /// Some(capacity): a buffered sink (Unix only; no failures injected), stats vs datagrams received
    #[serde(default)]
    pub buffered: Option<u16>,
}

pub struct ConcSockCampaign;

impl Campaign for ConcSockCampaign {
    type Case = ConcSockCase;
    fn name(&self) -> &'static str {
        "sock-telemetry-concurrent"
    }
    fn max_shrink_iters(&self) -> u32 {
        30
    }
    fn strategy(&self, _tier: Tier) -> BoxedStrategy<ConcSockCase> {
        (
            prop_oneof![Just(Transport::Udp), Just(Transport::Unix)],
            2u8..=8,
            20u16..300,
            0u8..6,
            prop::option::weighted(0.35, prop_oneof![Just(16u16), Just(64), Just(512), 16u16..300]),
        )
            .prop_map(|(transport, threads, per_thread, fail_every, buffered)| ConcSockCase {
                transport: if buffered.is_some() { Transport::Unix } else { transport },
                threads,
                per_thread,
                fail_every: if buffered.is_some() { 0 } else { fail_every },
                buffered,
            })
            .boxed()
    }
    fn check(&self, case: &ConcSockCase, _ctx: &Ctx) -> Outcome {
        let rx = match Rx::new(case.transport) {
            Ok(r) => r,
            Err(e) => {
                util::mark_inconclusive(&e.to_string());
                return Outcome::ok();
            }
        };
        let sc = SockCase {
            transport: case.transport,
            buffered: case.buffered.map(|c| Some(c as usize)),
            nonblocking: false,
            queued: false,
            addr_form: 0,
            path_form: 0,
            ops: vec![],
        };
        let sink: Arc<DynSink> = match build_sink(&sc, &rx) {
            Ok(s) => Arc::new(s),
            Err(e) => {
                util::mark_inconclusive(&e);
                return Outcome::ok();
            }
        };
        let big = match case.transport {
            Transport::Udp => 65_508,
            Transport::Unix => 300_000,
        };
        let stop = Arc::new(std::sync::atomic::AtomicBool::new(false));
        // receiver thread keeps the queue empty and counts
        let received = Arc::new(Mutex::new((0u64, 0u64)));
        let mut handles = Vec::new();
        let results: Arc<Mutex<(u64, u64, u64, u64)>> = Arc::new(Mutex::new((0, 0, 0, 0)));
        for t in 0..case.threads {
            let sink = sink.clone();
            let results = results.clone();
            let n = case.per_thread;
            let fe = case.fail_every;
            handles.push(std::thread::spawn(move || {
                let mut local = (0u64, 0u64, 0u64, 0u64);
                for i in 0..n {
                    let m = if fe > 0 && (i as u32 + t as u32) % (fe as u32 + 1) == 0 {
                        sized_metric(big)
                    } else {
                        format!("t{}.i{}:1|c", t, i)
                    };
                    match sink.emit(&m) {
                        Ok(nb) => {
                            local.0 += 1;
                            local.1 += nb as u64;
                        }
                        Err(_) => {
                            local.2 += 1;
                            local.3 += m.len() as u64;
                        }
                    }
                }
                let mut g = results.lock().unwrap();
                g.0 += local.0;
                g.1 += local.1;
                g.2 += local.2;
                g.3 += local.3;
            }));
        }
        // drain while the producers run (blocking Unix senders need room)
        let drainer = {
            let stop = stop.clone();
            let received = received.clone();
            std::thread::scope(|s| {
                let h = s.spawn(|| {
                    let mut cnt = (0u64, 0u64);
                    loop {
                        let got = rx.recv_all(false);
                        for d in &got {
                            cnt.0 += 1;
                            cnt.1 += d.len() as u64;
                        }
                        if got.is_empty() {
                            if stop.load(Ordering::Acquire) {
                                break;
                            }
                            std::thread::yield_now();
                        }
                    }
                    *received.lock().unwrap() = cnt;
                });
                for j in handles {
                    let _ = j.join();
                }
                if case.buffered.is_some() {
                    let _ = sink.flush();
                }
                std::thread::sleep(Duration::from_millis(2));
                stop.store(true, Ordering::Release);
                let _ = h.join();
            });
        };
        let _ = drainer;
        let truth = *results.lock().unwrap();
        let s = sink.stats();
        let mut verdict = Ok(());
        if case.buffered.is_some() {
            // buffered: emits return Ok without sending; ground truth = what arrived (Unix is reliable)
            let rcv = *received.lock().unwrap();
            if (s.packets_sent, s.bytes_sent, s.packets_dropped, s.bytes_dropped) != (rcv.0, rcv.1, 0, 0) {
                verdict = Err(format!(
                    "buffered sink, {} threads x {} emits, then flush: stats() = sent {}/{} B dropped {}/{} B, but {} datagrams / {} B arrived and no send failed",
                    case.threads, case.per_thread, s.packets_sent, s.bytes_sent, s.packets_dropped, s.bytes_dropped, rcv.0, rcv.1
                ));
            }
            let expected_bytes: u64 = truth.1 + truth.0; // every line + its newline
            if verdict.is_ok() && rcv.1 != expected_bytes {
                verdict = Err(format!("{} metric bytes (+{} newlines) were acknowledged but {} bytes arrived", truth.1, truth.0, rcv.1));
            }
            return Outcome {
                verdict,
                nontrivial: rcv.0 >= 2,
                fingerprint: util::hash_json(case),
                classes: vec!["concurrent emitters on one buffered sink"],
            };
        }
        if (s.packets_sent, s.bytes_sent, s.packets_dropped, s.bytes_dropped) != truth {
            verdict = Err(format!(
                "after {} threads x {} emits: stats() = sent {}/{} B dropped {}/{} B, but emits returned Ok {} times ({} B) and Err {} times ({} B)",
                case.threads, case.per_thread, s.packets_sent, s.bytes_sent, s.packets_dropped, s.bytes_dropped, truth.0, truth.1, truth.2, truth.3
            ));
        }
        let rcv = *received.lock().unwrap();
        // Unix datagram sockets are reliable: what was accepted must have arrived
        if verdict.is_ok() && case.transport == Transport::Unix && (rcv.0 != truth.0 || rcv.1 != truth.1) {
            verdict = Err(format!("socket accepted {} datagrams / {} B but {} / {} B arrived", truth.0, truth.1, rcv.0, rcv.1));
        }
        Outcome {
            verdict,
            nontrivial: truth.0 > 0 && truth.2 > 0,
            fingerprint: util::hash_json(case),
            classes: vec!["concurrent emitters on one unbuffered sink"],
        }
    }
}


// ---------------------------------------------------------------------------
// flush() behind an emit that is blocked inside the sink (blocking Unix socket
// whose receiver queue is full): the flush must not report Ok while the metrics
// acknowledged before it cannot have been sent.

#[derive(Serialize, Deserialize, Clone, Debug)]
pub struct BlockedFlushCase {
    pub cap: u16,
    pub metric_len: u8,
    /// false: flush issued behind a blocked emit; true: emit issued behind a blocked flush
    #[serde(default)]
    pub emit_behind_flush: bool,
    /// the sink is dropped with lines buffered while the receiver queue is full (the final
    /// write blocks until there is room): "send what remains when ... dropped"
    #[serde(default)]
    pub drop_with_full_receiver: bool,
}

pub struct BlockedFlushCampaign {
    pub name: &'static str,
}

impl Campaign for BlockedFlushCampaign {
    type Case = BlockedFlushCase;
    fn name(&self) -> &'static str {
        self.name
    }
    fn max_shrink_iters(&self) -> u32 {
        6
    }
    fn strategy(&self, _tier: Tier) -> BoxedStrategy<BlockedFlushCase> {
        (prop_oneof![Just(16u16), Just(32), Just(64), 16u16..200], 1u8..12, 0u8..3)
            .prop_map(|(cap, metric_len, mode)| BlockedFlushCase {
                cap,
                metric_len,
                emit_behind_flush: mode == 1,
                drop_with_full_receiver: mode == 2,
            })
            .boxed()
    }
    fn check(&self, case: &BlockedFlushCase, ctx: &Ctx) -> Outcome {
        let w = ctx.w();
        let mut rx = match Rx::new(Transport::Unix) {
            Ok(r) => r,
            Err(e) => {
                util::mark_inconclusive(&e.to_string());
                return Outcome::ok();
            }
        };
        let path = match &rx {
            Rx::Unix { path, .. } => path.clone(),
            _ => unreachable!(),
        };
        let sock = match UnixDatagram::unbound() {
            Ok(s) => s,
            Err(e) => {
                util::mark_inconclusive(&e.to_string());
                return Outcome::ok();
            }
        };
        if case.drop_with_full_receiver {
            return drop_behind_full_receiver(case, rx, path, sock, w);
        }
        if case.emit_behind_flush {
            return emit_behind_blocked_flush(case, rx, path, sock, w);
        }
        // blocking sender
        let sink = Arc::new(BufferedUnixMetricSink::with_capacity(&path, sock, case.cap as usize));
        rx.clog();
        let (ptx, prx) = crossbeam_channel::unbounded::<String>();
        let sink_a = sink.clone();
        let mlen = case.metric_len as usize;
        let emitter = std::thread::spawn(move || {
            // emits until told to stop; the emit that has to flush blocks in sendto
            for i in 0..10_000usize {
                let m = format!("{:0width$}:{}|c", i, 1, width = mlen);
                match sink_a.emit(&m) {
                    Ok(_) => {
                        if ptx.send(m).is_err() {
                            break;
                        }
                    }
                    Err(_) => break,
                }
                if i >= 400 {
                    break;
                }
            }
        });
        // wait until the emitter makes no progress for a while: it is blocked inside emit
        let mut acked: Vec<String> = Vec::new();
        loop {
            match prx.recv_timeout(Duration::from_millis(120)) {
                Ok(m) => acked.push(m),
                Err(_) => break,
            }
        }
        let blocked = !emitter.is_finished();
        let mut bad: Vec<String> = Vec::new();
        let mut flush_blocked = false;
        if blocked {
            let (ftx, frx) = crossbeam_channel::bounded::<Result<(), String>>(1);
            let sink_f = sink.clone();
            let flusher = std::thread::spawn(move || {
                let r = sink_f.flush().map_err(|e| e.to_string());
                let _ = ftx.send(r);
            });
            match frx.recv_timeout(Duration::from_millis(150)) {
                // (with nothing acknowledged yet the emitter may just not have run: an Ok flush of an
                // empty buffer says nothing)
                Ok(Ok(())) if acked.is_empty() => {}
                Ok(Ok(())) => bad.push(format!(
                    "flush() returned Ok while another thread is blocked inside the sink (receiver queue full): {} metrics acknowledged before the flush cannot have been sent yet",
                    acked.len()
                )),
                Ok(Err(_)) => {}
                Err(_) => flush_blocked = true,
            }
            // unclog and let everything finish (a blocked sender may get its datagram in while the
            // filler is still being drained: what unclog() finds besides the filler counts as received)
            let mut got: Vec<Vec<u8>> = rx.unclog();
            let deadline = Instant::now() + w;
            while (!emitter.is_finished() || !flusher.is_finished()) && Instant::now() < deadline {
                got.extend(rx.recv_all(false));
                while let Ok(m) = prx.try_recv() {
                    acked.push(m);
                }
                std::thread::sleep(Duration::from_micros(200));
            }
            if !emitter.is_finished() || !flusher.is_finished() {
                bad.push("emit/flush still blocked after the receiver was drained".into());
            } else {
                let _ = emitter.join();
                let _ = flusher.join();
                while let Ok(m) = prx.try_recv() {
                    acked.push(m);
                }
                match Arc::try_unwrap(sink) {
                    Ok(s) => {
                        // the drop flushes through the blocking socket: keep the receiver drained meanwhile
                        let dropper = std::thread::spawn(move || drop(s));
                        let deadline = Instant::now() + w;
                        while !dropper.is_finished() && Instant::now() < deadline {
                            got.extend(rx.recv_all(false));
                            std::thread::sleep(Duration::from_micros(200));
                        }
                        if !dropper.is_finished() {
                            bad.push("dropping the sink blocked although the receiver is being drained".into());
                        } else {
                            let _ = dropper.join();
                        }
                    }
                    Err(_) => bad.push("sink still shared".into()),
                }
                std::thread::sleep(Duration::from_millis(1));
                got.extend(rx.recv_all(false));
                let text: String = got.iter().filter(|d| d.as_slice() != FILLER).map(|d| String::from_utf8_lossy(d).into_owned()).collect();
                let lines: Vec<&str> = text.split_terminator('\n').collect();
                for m in &acked {
                    let n = lines.iter().filter(|l| **l == m.as_str()).count();
                    if n != 1 {
                        bad.push(format!("acknowledged metric '{}' arrived {} times", m, n));
                        break;
                    }
                }
            }
        } else {
            let _ = rx.unclog();
            let _ = emitter.join();
            // never blocked (should not happen with a clogged receiver): drain while dropping
            if let Ok(s) = Arc::try_unwrap(sink) {
                let dropper = std::thread::spawn(move || drop(s));
                let deadline = Instant::now() + w;
                while !dropper.is_finished() && Instant::now() < deadline {
                    let _ = rx.recv_all(false);
                    std::thread::sleep(Duration::from_micros(200));
                }
            }
        }
        Outcome {
            verdict: match bad.first() {
                None => Ok(()),
                Some(b) => Err(b.clone()),
            },
            nontrivial: blocked && flush_blocked,
            fingerprint: util::hash_json(case),
            classes: vec![if blocked { "emitter blocked inside the sink, flush issued behind it" } else { "emitter never blocked" }],
        }
    }
}


/// A buffered sink on a blocking socket is dropped with lines still buffered while the
/// receiver queue is full: the final write waits for room, nothing may be lost.
fn drop_behind_full_receiver(case: &BlockedFlushCase, mut rx: Rx, path: PathBuf, sock: UnixDatagram, w: Duration) -> Outcome {
    let cap = (case.cap as usize).max(32);
    let sink = BufferedUnixMetricSink::with_capacity(&path, sock, cap);
    let mut bad: Vec<String> = Vec::new();
    let mut acked: Vec<String> = Vec::new();
    let mut used = 0usize;
    for i in 0..8usize {
        let m = format!("d{}{}:1|c", i, "z".repeat(case.metric_len as usize % 6));
        if used + m.len() + 1 >= cap {
            break;
        }
        match sink.emit(&m) {
            Ok(_) => {
                used += m.len() + 1;
                acked.push(m);
            }
            Err(e) => bad.push(format!("emit into a buffer with room failed: {}", e)),
        }
    }
    rx.clog();
    let dropper = std::thread::spawn(move || drop(sink));
    std::thread::sleep(Duration::from_millis(40));
    let drop_blocked = !dropper.is_finished();
    let mut got: Vec<Vec<u8>> = rx.unclog();
    let deadline = Instant::now() + w;
    while !dropper.is_finished() && Instant::now() < deadline {
        got.extend(rx.recv_all(false));
        std::thread::sleep(Duration::from_micros(200));
    }
    if !dropper.is_finished() {
        bad.push("dropping the sink still blocks although the receiver is being drained".into());
    } else {
        let _ = dropper.join();
        std::thread::sleep(Duration::from_millis(1));
        got.extend(rx.recv_all(false));
        let text: String = got.iter().filter(|d| d.as_slice() != FILLER).map(|d| String::from_utf8_lossy(d).into_owned()).collect();
        for m in &acked {
            let n = text.split_terminator('\n').filter(|l| *l == m.as_str()).count();
            if n != 1 {
                bad.push(format!(
                    "metric '{}' was acknowledged and still buffered when the sink (blocking socket) was dropped while the receiver queue was full; it arrived {} times: the remainder was not sent on drop",
                    m, n
                ));
                break;
            }
        }
    }
    Outcome {
        verdict: match bad.first() {
            None => Ok(()),
            Some(b) => Err(b.clone()),
        },
        nontrivial: drop_blocked && !acked.is_empty(),
        fingerprint: util::hash_json(case),
        classes: vec![if drop_blocked { "sink dropped with lines buffered while the receiver queue is full (drop waits)" } else { "drop did not block" }],
    }
}

/// A flush is blocked inside the sink (receiver queue full); another thread's emit
/// waits behind it. Once both have returned, a further flush must send that metric.
fn emit_behind_blocked_flush(case: &BlockedFlushCase, mut rx: Rx, path: PathBuf, sock: UnixDatagram, w: Duration) -> Outcome {
    let cap = (case.cap as usize).max(32);
    let sink = Arc::new(BufferedUnixMetricSink::with_capacity(&path, sock, cap));
    let mut bad: Vec<String> = Vec::new();
    let a = format!("a{}:1|c", "x".repeat((case.metric_len as usize) % 8));
    let b = format!("b{}:2|c", "y".repeat((case.metric_len as usize) % 5));
    if sink.emit(&a).is_err() {
        bad.push("emit into an empty buffered sink failed".into());
    }
    rx.clog();
    let s1 = sink.clone();
    let f1 = std::thread::spawn(move || s1.flush().map_err(|e| e.to_string()));
    std::thread::sleep(Duration::from_millis(40));
    let flush_blocked = !f1.is_finished();
    let s2 = sink.clone();
    let b2 = b.clone();
    let e = std::thread::spawn(move || s2.emit(&b2).map_err(|e| e.to_string()));
    std::thread::sleep(Duration::from_millis(40));
    let emit_waiting = !e.is_finished();
    // let both proceed (datagrams that slip in while the filler is drained count as received)
    let mut got: Vec<Vec<u8>> = rx.unclog();
    let deadline = Instant::now() + w;
    while (!f1.is_finished() || !e.is_finished()) && Instant::now() < deadline {
        got.extend(rx.recv_all(false));
        std::thread::sleep(Duration::from_micros(200));
    }
    if !f1.is_finished() || !e.is_finished() {
        bad.push("flush/emit still blocked after the receiver was drained".into());
    } else {
        let r1 = f1.join().unwrap_or(Err("panicked".into()));
        let re = e.join().unwrap_or(Err("panicked".into()));
        if let (Ok(()), Ok(_)) = (&r1, &re) {
            // both metrics were acknowledged; an explicit flush now must leave nothing behind
            match sink.flush() {
                Ok(()) => {
                    std::thread::sleep(Duration::from_millis(1));
                    got.extend(rx.recv_all(false));
                    let text: String = got.iter().filter(|d| d.as_slice() != FILLER).map(|d| String::from_utf8_lossy(d).into_owned()).collect();
                    for m in [&a, &b] {
                        let n = text.split_terminator('\n').filter(|l| *l == m.as_str()).count();
                        if n != 1 {
                            bad.push(format!(
                                "metric '{}' was acknowledged, then flush() returned Ok, but it was written {} times (an emit that waited behind a blocked flush is not covered by the next flush)",
                                m, n
                            ));
                        }
                    }
                }
                Err(e) => bad.push(format!("flush failed with {} although the receiver is idle", e)),
            }
        }
    }
    if let Ok(s) = Arc::try_unwrap(sink) {
        let dropper = std::thread::spawn(move || drop(s));
        let deadline = Instant::now() + w;
        while !dropper.is_finished() && Instant::now() < deadline {
            let _ = rx.recv_all(false);
            std::thread::sleep(Duration::from_micros(200));
        }
    }
    Outcome {
        verdict: match bad.first() {
            None => Ok(()),
            Some(b) => Err(b.clone()),
        },
        nontrivial: flush_blocked && emit_waiting,
        fingerprint: util::hash_json(case),
        classes: vec![if flush_blocked && emit_waiting { "flush blocked inside the sink, emit waiting behind it" } else { "flush did not block" }],
    }
}


// ---------------------------------------------------------------------------
// C14: "identical when read through a wrapping queuing sink" — also while the bounded
// queue is rejecting metrics (which never reach the socket)

#[derive(Serialize, Deserialize, Clone, Debug)]
pub struct QueueStatsCase {
    pub cap: u8,
    pub extra: u8,
    pub buffered: bool,
}

pub struct QueueStatsIdentity;

impl Campaign for QueueStatsIdentity {
    type Case = QueueStatsCase;
    fn name(&self) -> &'static str {
        "queue-stats-identity"
    }
    fn max_shrink_iters(&self) -> u32 {
        10
    }
    fn strategy(&self, _tier: Tier) -> BoxedStrategy<QueueStatsCase> {
        (1u8..5, 1u8..6, any::<bool>()).prop_map(|(cap, extra, buffered)| QueueStatsCase { cap, extra, buffered }).boxed()
    }
    fn check(&self, case: &QueueStatsCase, ctx: &Ctx) -> Outcome {
        use crate::queue::gate::{Gate, GatedForward, StepOut};
        let w = ctx.w();
        let rx = match Rx::new(Transport::Unix) {
            Ok(r) => r,
            Err(e) => {
                util::mark_inconclusive(&e.to_string());
                return Outcome::ok();
            }
        };
        let sc = SockCase {
            transport: Transport::Unix,
            buffered: if case.buffered { Some(Some(64)) } else { None },
            nonblocking: true,
            queued: false,
            addr_form: 0,
            path_form: 0,
            ops: vec![],
        };
        let inner = match build_sink(&sc, &rx) {
            Ok(s) => s,
            Err(e) => {
                util::mark_inconclusive(&e);
                return Outcome::ok();
            }
        };
        let gate = Gate::new();
        let gf = GatedForward { gate: gate.clone(), inner: BoxSink(inner) };
        let q = if case.extra % 2 == 0 {
            QueuingMetricSink::with_capacity(gf, case.cap as usize)
        } else {
            QueuingMetricSink::builder().with_capacity(case.cap as usize).with_error_handler(|_e| {}).build(gf)
        };
        let mut bad: Vec<String> = Vec::new();
        let mut accepted: Vec<String> = Vec::new();
        let mut rejected = 0usize;
        // the worker blocks on the first metric; cap more fit into the queue; the rest is rejected
        for i in 0..(1 + case.cap as usize + case.extra as usize) {
            let m = format!("q{}:1|c", i);
            match q.emit(&m) {
                Ok(_) => accepted.push(m),
                Err(_) => rejected += 1,
            }
            if i == 0 {
                let _ = gate.wait_until(w, |g| g.entered >= 1);
            }
        }
        let s = q.stats();
        if s.packets_sent != 0 || s.bytes_sent != 0 || s.packets_dropped != 0 || s.bytes_dropped != 0 {
            bad.push(format!(
                "nothing has been handed to the socket yet ({} metrics queued, {} rejected by the queue), but stats() read through the queuing sink = sent {}/{} B dropped {}/{} B",
                accepted.len(), rejected, s.packets_sent, s.bytes_sent, s.packets_dropped, s.bytes_dropped
            ));
        }
        gate.set_open(Some(StepOut::Ok));
        let want = accepted.len();
        if !gate.wait_until(w, |g| g.exited >= want) {
            bad.push("queued metrics did not reach the socket sink within W".into());
        }
        let _ = q.flush();
        std::thread::sleep(Duration::from_millis(1));
        let got = rx.recv_all(false);
        let s = q.stats();
        let (pk, by) = (got.len() as u64, got.iter().map(|d| d.len() as u64).sum::<u64>());
        if bad.is_empty() && (s.packets_sent, s.bytes_sent, s.packets_dropped, s.bytes_dropped) != (pk, by, 0, 0) {
            bad.push(format!(
                "{} datagrams / {} B arrived and no send failed ({} metrics had been rejected by the queue before reaching the socket), but stats() = sent {}/{} B dropped {}/{} B",
                pk, by, rejected, s.packets_sent, s.bytes_sent, s.packets_dropped, s.bytes_dropped
            ));
        }
        drop(q);
        Outcome {
            verdict: match bad.first() {
                None => Ok(()),
                Some(b) => Err(b.clone()),
            },
            nontrivial: rejected > 0,
            fingerprint: util::hash_json(case),
            classes: vec!["telemetry through a bounded queuing sink that rejects metrics"],
        }
    }
}

// ---------------------------------------------------------------------------
// Receivers that the harness closes while a sink keeps sending to them are bound to ports
// *outside* the kernel's ephemeral range (32768..60999 here): a closed ephemeral port can be
// handed to any other bind(0) on the machine (another check running at the same time), which
// would then receive this sink's datagrams - and raise a false alarm there or here. Each
// process claims a block of ports by holding the block's first port for its lifetime.

static PRIVATE_CTR: AtomicUsize = AtomicUsize::new(0);
static PRIVATE_BLOCK: Mutex<Option<(usize, UdpSocket)>> = Mutex::new(None);
const PRIVATE_BASE: usize = 10_000;
const PRIVATE_BLOCK_LEN: usize = 300;
const PRIVATE_BLOCKS: usize = 70;

fn bind_private_port() -> Option<UdpSocket> {
    let block = {
        let mut g = PRIVATE_BLOCK.lock().unwrap_or_else(|p| p.into_inner());
        if g.is_none() {
            let start = std::process::id() as usize % PRIVATE_BLOCKS;
            for i in 0..PRIVATE_BLOCKS {
                let b = (start + i) % PRIVATE_BLOCKS;
                if let Ok(s) = UdpSocket::bind(("127.0.0.1", (PRIVATE_BASE + b * PRIVATE_BLOCK_LEN) as u16)) {
                    *g = Some((b, s));
                    break;
                }
            }
        }
        g.as_ref().map(|(b, _)| *b)?
    };
    for _ in 0..PRIVATE_BLOCK_LEN {
        let n = PRIVATE_CTR.fetch_add(1, Ordering::Relaxed);
        let port = PRIVATE_BASE + block * PRIVATE_BLOCK_LEN + 1 + n % (PRIVATE_BLOCK_LEN - 1);
        if let Ok(s) = UdpSocket::bind(("127.0.0.1", port as u16)) {
            return Some(s);
        }
    }
    None
}

// ---------------------------------------------------------------------------
// C19 (and C13): a buffered UDP sink over a *connected* socket whose peer port was closed
// for a while (ICMP port unreachable leaves a pending error on the socket). Whatever the
// socket reports and whenever, lines that fit into the empty buffer together must not be
// sent one by one.

#[derive(Serialize, Deserialize, Clone, Debug)]
pub struct ConnectedUdpCase {
    pub cap: u16,
    pub len: u8,
}

pub struct ConnectedUdpGreedy;

impl Campaign for ConnectedUdpGreedy {
    type Case = ConnectedUdpCase;
    fn name(&self) -> &'static str {
        "udp-connected-pending-error-greedy"
    }
    fn max_shrink_iters(&self) -> u32 {
        10
    }
    fn strategy(&self, _tier: Tier) -> BoxedStrategy<ConnectedUdpCase> {
        (24u16..96, 3u8..10).prop_map(|(cap, len)| ConnectedUdpCase { cap, len }).boxed()
    }
    fn check(&self, case: &ConnectedUdpCase, _ctx: &Ctx) -> Outcome {
        // the scenario needs a port that is free, then closed, then free again: when another socket of
        // this machine grabs it in between the case is simply not run (not a verdict, not "inconclusive")
        let skip = |_why: &str| Outcome::ok();
        let line = |tag: char, i: usize| -> String {
            let mut s = String::new();
            s.push(tag);
            while s.len() + 4 < case.len as usize + 4 {
                s.push((b'a' + (i % 26) as u8) as char);
            }
            s.push_str(":1|c");
            s
        };
        let l = line('p', 0).len() + 1;
        let cap = case.cap as usize;
        // k lines fit into the empty buffer, but not on top of the two earlier ones
        let k = (cap / l).min(4);
        if k < 2 || (k + 2) * l <= cap {
            return Outcome::ok();
        }
        let rx = match bind_private_port() {
            Some(r) => r,
            None => return skip("no private port"),
        };
        let addr = rx.local_addr().unwrap();
        drop(rx); // nobody listens: the first datagram bounces
        let sock = match UdpSocket::bind("127.0.0.1:0").and_then(|s| s.connect(addr).map(|_| s)) {
            Ok(s) => s,
            Err(e) => return skip(&e.to_string()),
        };
        let sink = match BufferedUdpMetricSink::with_capacity(addr, sock, cap) {
            Ok(s) => s,
            Err(e) => return skip(&e.to_string()),
        };
        let mut bad: Vec<String> = Vec::new();
        for i in 0..2 {
            if let Err(e) = sink.emit(&line('p', i)) {
                bad.push(format!("emit into an empty buffer failed: {}", e));
            }
        }
        let first_flush = sink.flush();
        std::thread::sleep(Duration::from_millis(3));
        let rx2 = match UdpSocket::bind(addr) {
            Ok(r) => r,
            Err(e) => return skip(&format!("cannot re-bind the port: {}", e)),
        };
        let _ = rx2.set_nonblocking(true);
        let recv_all = |rx: &UdpSocket| -> Vec<Vec<u8>> {
            let mut out = Vec::new();
            let mut buf = vec![0u8; 65536];
            std::thread::sleep(Duration::from_micros(300));
            while let Ok(n) = rx.recv(&mut buf) {
                out.push(buf[..n].to_vec());
            }
            out
        };
        // Whatever the first flush reported (the pending socket error may surface there, making the two
        // lines "still pending", or later): all lines have the same size, so a datagram that leaves while
        // the next k lines are emitted must have been too full for one more line.
        let pending_before = if first_flush.is_ok() { 0 } else { 2 };
        let mut during_emits: Vec<Vec<u8>> = Vec::new();
        let mut acked: Vec<String> = Vec::new();
        for i in 0..k {
            let m = line('q', i);
            match sink.emit(&m) {
                Ok(_) => acked.push(m),
                Err(_) => break, // the socket's pending error may surface in any call
            }
            during_emits.extend(recv_all(&rx2));
        }
        if let Some(d) = during_emits.iter().find(|d| d.len() + l <= cap) {
            bad.push(format!(
                "while {} lines of {} bytes (+terminator) were emitted into a buffer of capacity {} a datagram of only {} bytes was sent ('{}') although one more line still fitted: it was packed against a phantom remainder (first flush after the peer was gone returned {})",
                k,
                l - 1,
                cap,
                d.len(),
                show(d),
                if first_flush.is_ok() { "Ok" } else { "an error" }
            ));
        }
        if pending_before == 0 && acked.len() == k && bad.is_empty() {
            // the remainder goes out in one datagram once a flush succeeds
            let mut flushed = false;
            for _ in 0..3 {
                if sink.flush().is_ok() {
                    flushed = true;
                    break;
                }
            }
            let after = recv_all(&rx2);
            if flushed && during_emits.is_empty() && after.len() != 1 {
                bad.push(format!("after a successful flush {} datagrams arrived for {} buffered lines that fit into one", after.len(), k));
            }
        }
        drop(sink);
        Outcome {
            verdict: match bad.first() {
                None => Ok(()),
                Some(b) => Err(b.clone()),
            },
            nontrivial: acked.len() == k,
            fingerprint: util::hash_json(case),
            classes: vec![if pending_before == 0 { "connected UDP socket, peer gone: first flush Ok" } else { "connected UDP socket, peer gone: first flush reported the pending error" }],
        }
    }
}

// ---------------------------------------------------------------------------
// C13 / C14: UDP histories in which the receiver goes away and comes back on the same
// port. The socket handed to the constructor is *unconnected*, so it cannot observe its
// peer: the same call sequence is run against a second sink whose receiver never goes
// away (metamorphic relation). Every call must return the same result in both runs, every
// datagram that leaves while the receiver is bound must be the one the reference run sent
// in that call, and stats() must read the same after every call. Unbuffered sinks are
// judged absolutely as well (one datagram == the metric per Ok emit).

#[derive(Serialize, Deserialize, Clone, Debug, PartialEq, Eq)]
pub enum ROp {
    Emit(u32),
    Flush,
}

#[derive(Serialize, Deserialize, Clone, Debug)]
pub struct UdpRestartCase {
    pub buffered: Option<Option<usize>>,
    pub nonblocking: bool,
    pub addr_form: u8,
    /// phases alternate receiver bound / receiver gone, starting bound
    pub phases: Vec<Vec<ROp>>,
}

pub struct UdpRestart {
    pub name: &'static str,
    pub telemetry: bool,
}

fn udp_recv_all(rx: &UdpSocket, expect: usize, grace: Duration) -> Vec<Vec<u8>> {
    let mut out = Vec::new();
    let mut buf = vec![0u8; 70_000];
    let mut pull = |out: &mut Vec<Vec<u8>>| {
        while let Ok(n) = rx.recv(&mut buf) {
            out.push(buf[..n].to_vec());
        }
    };
    pull(&mut out);
    if out.len() < expect {
        let deadline = Instant::now() + grace;
        while out.len() < expect && Instant::now() < deadline {
            std::thread::sleep(Duration::from_micros(100));
            pull(&mut out);
        }
    } else {
        std::thread::sleep(Duration::from_micros(200));
        pull(&mut out);
    }
    out
}

impl Campaign for UdpRestart {
    type Case = UdpRestartCase;
    fn name(&self) -> &'static str {
        self.name
    }
    fn max_shrink_iters(&self) -> u32 {
        60
    }
    fn strategy(&self, _tier: Tier) -> BoxedStrategy<UdpRestartCase> {
        let op = |cap: Option<usize>| -> BoxedStrategy<ROp> {
            let near = cap.unwrap_or(512) as u32;
            prop_oneof![
                10 => (1u32..40).prop_map(ROp::Emit),
                3 => (near.saturating_sub(3)..near + 3).prop_map(ROp::Emit),
                2 => (40u32..700).prop_map(ROp::Emit),
                1 => Just(ROp::Emit(65_508)),
                2 => Just(ROp::Flush),
            ]
            .boxed()
        };
        let buffered = prop_oneof![
            2 => Just(None),
            1 => Just(Some(None)),
            4 => (8usize..96).prop_map(|c| Some(Some(c))),
        ];
        (buffered, any::<bool>(), 0u8..3)
            .prop_flat_map(move |(buffered, nonblocking, addr_form)| {
                let cap = match buffered {
                    None => None,
                    Some(None) => Some(512),
                    Some(Some(c)) => Some(c),
                };
                proptest::collection::vec(proptest::collection::vec(op(cap), 1..6), 2..6).prop_map(move |phases| UdpRestartCase {
                    buffered,
                    nonblocking,
                    addr_form,
                    phases,
                })
            })
            .boxed()
    }
    fn check(&self, case: &UdpRestartCase, ctx: &Ctx) -> Outcome {
        let grace = Duration::from_millis(if ctx.shrinking { 150 } else { 2000 });
        let sc = SockCase {
            transport: Transport::Udp,
            buffered: case.buffered,
            nonblocking: case.nonblocking,
            queued: false,
            addr_form: case.addr_form,
            path_form: 0,
            ops: Vec::new(),
        };
        // a port taken by another socket of this machine while ours was closed: the case is not run
        let skip = || Outcome::ok();
        let mk = |private: bool| -> Option<(DynSink, UdpSocket, UdpSocket)> {
            let mut rx = Rx::new(Transport::Udp).ok()?;
            if private {
                // this receiver will be closed while the sink keeps sending to its port
                if let Rx::Udp { target, .. } = &mut rx {
                    let t = bind_private_port()?;
                    t.set_nonblocking(true).ok()?;
                    *target = t;
                }
            }
            let sink = build_sink(&sc, &rx).ok()?;
            match rx {
                Rx::Udp { target, decoy } => Some((sink, target, decoy)),
                _ => None,
            }
        };
        let (test, t_rx, t_decoy) = match mk(true) {
            Some(x) => x,
            None => return skip(),
        };
        let (reference, r_rx, r_decoy) = match mk(false) {
            Some(x) => x,
            None => return skip(),
        };
        let addr = match t_rx.local_addr() {
            Ok(a) => a,
            Err(_) => return skip(),
        };
        let mut t_rx = Some(t_rx);
        let buffered = case.buffered.is_some();
        let mut wire: Vec<String> = Vec::new();
        let mut tele: Vec<String> = Vec::new();
        let mut truth = SinkStats::default();
        let mut lost_while_gone = 0usize;
        let mut arrived_after_restart = 0usize;
        let mut restarts = 0usize;
        let res_tok = |r: &Result<usize, io::Error>| -> String {
            match r {
                Ok(n) => format!("Ok({})", n),
                Err(e) => format!("Err({:?})", e.kind()),
            }
        };
        let mut opno = 0usize;
        'outer: for (pi, phase) in case.phases.iter().enumerate() {
            let bound = pi % 2 == 0;
            if bound && t_rx.is_none() {
                match UdpSocket::bind(addr) {
                    Ok(s) => {
                        let _ = s.set_nonblocking(true);
                        t_rx = Some(s);
                        restarts += 1;
                    }
                    Err(_) => {
                        std::mem::forget(test);
                        std::mem::forget(reference);
                        return skip();
                    }
                }
            } else if !bound {
                t_rx = None;
            }
            for op in phase {
                opno += 1;
                let (what, r_res, t_res): (String, Result<usize, io::Error>, Result<usize, io::Error>) = match op {
                    ROp::Emit(n) => {
                        let m = sized_metric(*n as usize);
                        let r = catch(|| (reference.emit(&m), test.emit(&m)));
                        match r {
                            Ok((a, b)) => (format!("emit of {} bytes", n), a, b),
                            Err(_) => break 'outer, // panics are C20's
                        }
                    }
                    ROp::Flush => match catch(|| (reference.flush(), test.flush())) {
                        Ok((a, b)) => ("flush".to_string(), a.map(|_| 0), b.map(|_| 0)),
                        Err(_) => break 'outer,
                    },
                };
                let expect = if !buffered && matches!(op, ROp::Emit(_)) && r_res.is_ok() { 1 } else { 0 };
                let r_got = udp_recv_all(&r_rx, expect, grace);
                if res_tok(&r_res) != res_tok(&t_res) {
                    wire.push(format!(
                        "op #{} ({}): returned {} on the sink whose receiver was {} but {} on an identical sink, same calls, whose receiver never went away (the socket is unconnected: it cannot observe its peer)",
                        opno,
                        what,
                        res_tok(&t_res),
                        if bound { if restarts > 0 { "restarted earlier" } else { "bound" } } else { "gone" },
                        res_tok(&r_res)
                    ));
                }
                if let Some(rx) = &t_rx {
                    let t_got = udp_recv_all(rx, r_got.len(), grace);
                    if t_got != r_got {
                        wire.push(format!(
                            "op #{} ({}): {} datagram(s) [{}] arrived at the address given at construction ({} receiver restarts so far) but the reference run sent {} [{}] in this call",
                            opno,
                            what,
                            t_got.len(),
                            t_got.iter().map(|d| show(d)).collect::<Vec<_>>().join(" | "),
                            restarts,
                            r_got.len(),
                            r_got.iter().map(|d| show(d)).collect::<Vec<_>>().join(" | ")
                        ));
                    }
                    if restarts > 0 {
                        arrived_after_restart += t_got.len();
                    }
                    if !buffered {
                        if let ROp::Emit(n) = op {
                            let m = sized_metric(*n as usize).into_bytes();
                            match &t_res {
                                Ok(k) => {
                                    if *k != m.len() || t_got.len() != 1 || t_got[0] != m {
                                        wire.push(format!("op #{}: unbuffered emit of {} bytes returned Ok({}) and {} datagram(s) arrived", opno, m.len(), k, t_got.len()));
                                    }
                                }
                                Err(_) => {
                                    if !t_got.is_empty() {
                                        wire.push(format!("op #{}: unbuffered emit returned an error but {} datagram(s) arrived", opno, t_got.len()));
                                    }
                                }
                            }
                        }
                    }
                } else {
                    lost_while_gone += r_got.len();
                }
                if !buffered {
                    if let ROp::Emit(n) = op {
                        match &t_res {
                            Ok(k) => {
                                truth.packets_sent += 1;
                                truth.bytes_sent += *k as u64;
                            }
                            Err(_) => {
                                truth.packets_dropped += 1;
                                truth.bytes_dropped += *n as u64;
                            }
                        }
                    }
                }
                if let (Ok(ts), Ok(rs)) = (catch(|| test.stats()), catch(|| reference.stats())) {
                    let fmt = |s: &SinkStats| format!("{{sent {} / {} B, dropped {} / {} B}}", s.packets_sent, s.bytes_sent, s.packets_dropped, s.bytes_dropped);
                    if !eq_stats(&ts, &rs) && res_tok(&r_res) == res_tok(&t_res) {
                        tele.push(format!(
                            "op #{} ({}): stats() = {} but an identical sink that made the same calls with the same results reads {} (receiver {})",
                            opno,
                            what,
                            fmt(&ts),
                            fmt(&rs),
                            if bound { "bound" } else { "gone" }
                        ));
                    }
                    if !buffered && !eq_stats(&ts, &truth) {
                        tele.push(format!("op #{} ({}): stats() = {} but the emits that returned Ok / Err add up to {}", opno, what, fmt(&ts), fmt(&truth)));
                    }
                }
            }
        }
        let _ = catch(move || {
            drop(reference);
            drop(test)
        });
        let r_got = udp_recv_all(&r_rx, 0, grace);
        if let Some(rx) = &t_rx {
            let t_got = udp_recv_all(rx, r_got.len(), grace);
            if t_got != r_got {
                wire.push(format!("drop: {} datagram(s) arrived at the address given at construction but the reference run sent {} when dropped", t_got.len(), r_got.len()));
            }
            if restarts > 0 {
                arrived_after_restart += t_got.len();
            }
        }
        if !udp_recv_all(&t_decoy, 0, grace).is_empty() || !udp_recv_all(&r_decoy, 0, grace).is_empty() {
            wire.push("a datagram was sent to an address other than the one given at construction".into());
        }
        let bad = if self.telemetry { tele.first() } else { wire.first() };
        let mut classes = Vec::new();
        if lost_while_gone > 0 {
            classes.push("UDP receiver gone while a datagram left");
        }
        if arrived_after_restart > 0 {
            classes.push("datagram arrived at a restarted UDP receiver");
        }
        Outcome {
            verdict: match bad {
                None => Ok(()),
                Some(b) => Err(b.clone()),
            },
            nontrivial: lost_while_gone > 0 && arrived_after_restart > 0,
            fingerprint: util::hash_json(case),
            classes,
        }
    }
}

// ---------------------------------------------------------------------------
// C07 on a real socket whose failures are *pending errors*: a buffered UDP sink over a
// connected socket whose peer port was closed for a moment. The ICMP port-unreachable makes
// one later send fail (ECONNREFUSED) without sending; by then the receiver is bound again.
// Whatever call the error surfaces in: no line reaches the receiver twice, a metric whose
// emit returned the error never arrives, and once a flush has returned Ok every line
// acknowledged since the receiver came back has arrived exactly once.

#[derive(Serialize, Deserialize, Clone, Debug)]
pub struct ConnectedUdpOnceCase {
    pub cap: u16,
    pub len: u8,
    pub first: u8,
    pub second: u8,
    /// index (among the second batch) of a metric larger than the buffer (bypass path), if any
    pub oversize_at: Option<u8>,
}

pub struct ConnectedUdpOnce;

impl Campaign for ConnectedUdpOnce {
    type Case = ConnectedUdpOnceCase;
    fn name(&self) -> &'static str {
        "udp-connected-pending-error-once"
    }
    fn max_shrink_iters(&self) -> u32 {
        20
    }
    fn strategy(&self, _tier: Tier) -> BoxedStrategy<ConnectedUdpOnceCase> {
        (24u16..96, 3u8..10, 1u8..4, 1u8..6, proptest::option::weighted(0.4, 0u8..3))
            .prop_map(|(cap, len, first, second, oversize_at)| ConnectedUdpOnceCase { cap, len, first, second, oversize_at })
            .boxed()
    }
    fn check(&self, case: &ConnectedUdpOnceCase, _ctx: &Ctx) -> Outcome {
        let skip = || Outcome::ok();
        let cap = case.cap as usize;
        let line = |tag: char, i: usize, big: bool| -> String {
            let mut s = String::new();
            s.push(tag);
            s.push((b'a' + (i % 26) as u8) as char);
            let body = if big { cap + 3 } else { case.len as usize };
            while s.len() < body {
                s.push((b'a' + (i % 26) as u8) as char);
            }
            s.push_str(":1|c");
            s
        };
        let rx = match bind_private_port() {
            Some(r) => r,
            None => return skip(),
        };
        let addr = match rx.local_addr() {
            Ok(a) => a,
            Err(_) => return skip(),
        };
        drop(rx);
        let sock = match UdpSocket::bind("127.0.0.1:0").and_then(|s| s.connect(addr).map(|_| s)) {
            Ok(s) => s,
            Err(_) => return skip(),
        };
        let sink = match BufferedUdpMetricSink::with_capacity(addr, sock, cap) {
            Ok(s) => s,
            Err(_) => return skip(),
        };
        for i in 0..case.first as usize {
            let _ = sink.emit(&line('p', i, false));
        }
        let _ = sink.flush(); // bounces: nobody listens
        std::thread::sleep(Duration::from_millis(3));
        let rx2 = match UdpSocket::bind(addr) {
            Ok(r) => r,
            Err(_) => {
                drop(sink);
                return skip();
            }
        };
        let _ = rx2.set_nonblocking(true);
        let mut acked: Vec<String> = Vec::new();
        let mut refused: Vec<String> = Vec::new();
        let mut errors_seen = 0usize;
        for i in 0..case.second as usize {
            let m = line('q', i, case.oversize_at == Some(i as u8));
            match sink.emit(&m) {
                Ok(_) => acked.push(m),
                Err(_) => {
                    errors_seen += 1;
                    refused.push(m)
                }
            }
        }
        let mut flushed = false;
        for _ in 0..4 {
            match sink.flush() {
                Ok(()) => {
                    flushed = true;
                    break;
                }
                Err(_) => errors_seen += 1,
            }
        }
        drop(sink);
        let got = udp_recv_all(&rx2, if flushed && !acked.is_empty() { 1 } else { 0 }, Duration::from_millis(500));
        let mut lines: Vec<String> = Vec::new();
        for d in &got {
            for l in String::from_utf8_lossy(d).split('\n') {
                if !l.is_empty() {
                    lines.push(l.to_string());
                }
            }
        }
        let count = |m: &str| lines.iter().filter(|l| l.as_str() == m).count();
        let mut bad: Vec<String> = Vec::new();
        let mut all: Vec<String> = (0..case.first as usize).map(|i| line('p', i, false)).collect();
        all.extend(acked.iter().cloned());
        all.extend(refused.iter().cloned());
        for m in &all {
            if count(m) > 1 {
                bad.push(format!(
                    "metric '{}' reached the receiver {} times ({} datagrams: [{}]); the connected socket reported its pending error {} time(s) - a failure must never cause a metric to be written twice",
                    show(m.as_bytes()),
                    count(m),
                    got.len(),
                    got.iter().map(|d| show(d)).collect::<Vec<_>>().join(" | "),
                    errors_seen
                ));
                break;
            }
        }
        if bad.is_empty() {
            if let Some(m) = refused.iter().find(|m| count(m) > 0) {
                bad.push(format!("emit of '{}' returned the socket's error but the metric was written (it reached the receiver)", show(m.as_bytes())));
            }
        }
        if bad.is_empty() && flushed {
            if let Some(m) = acked.iter().find(|m| count(m) != 1) {
                bad.push(format!(
                    "emit of '{}' returned Ok and a later flush returned Ok with the receiver bound, but the metric arrived {} times ({} socket errors seen)",
                    show(m.as_bytes()),
                    count(m),
                    errors_seen
                ));
            }
        }
        Outcome {
            verdict: match bad.first() {
                None => Ok(()),
                Some(b) => Err(b.clone()),
            },
            nontrivial: errors_seen > 0 && flushed,
            fingerprint: util::hash_json(case),
            classes: vec![if errors_seen > 0 { "connected UDP socket: pending error surfaced in a call" } else { "connected UDP socket: no error surfaced" }],
        }
    }
}
