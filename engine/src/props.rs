//! Property registry: which campaigns decide which property, with what budgets.

use crate::driver::{self, Campaign, Ctx, Evidence, Outcome, Tier};
use crate::fmt::{FmtCampaign, Focus, OutcomeExhaustive};

pub const ALL: &[&str] = &[
    "C01", "C02", "C03", "C04", "C05", "C06", "C07", "C08", "C09", "C10", "C11", "C12", "C13", "C14", "C15", "C16", "C17", "C18",
    "C19", "C20",
];

pub fn static_id(id: &str) -> Option<&'static str> {
    ALL.iter().copied().find(|x| *x == id)
}

fn scale(n: u32) -> u32 {
    // VERIF_SCALE_PCT lets the sensitivity scripts shorten or lengthen campaigns
    let pct = crate::util::env_u64("VERIF_SCALE_PCT", 100);
    ((n as u64 * pct / 100).max(1)) as u32
}

/// Run every campaign of a property; returns the evidence (violations inside).
pub fn run(id: &'static str, tier: Tier, seed: u64) -> Option<Evidence> {
    let ctx = Ctx::new(id, tier, seed);
    let sh = driver::shards();
    match id {
        "C01" => {
            let mut ev = Evidence::new(
                id,
                "exploration",
                tier,
                seed,
                "proptest-generated client configuration + 1..2 calls over all 24 entry points x {plain, tagged try_send, tagged quiet send} x builder ops in arbitrary order; judged by an independent reference renderer (exact text, float numerals by parse-back), a round-trip parser on delimiter-free cases and the standalone constructors. Non-trivial: a call with >=2 optional sections, or a packed list of length != 1, or a non-ASCII / dotted-prefix string; distinct by hash of the whole case.",
            );
            ev.assume("f64 numerals are judged with std's str::parse::<f64> (correctly rounded), integers with the harness's own decimal printer");
            let c = FmtCampaign::new("fmt-line", Focus::Line);
            driver::run_random(&c, &ev, &ctx, scale(tier.pick(40_000, 1_000_000)), sh);
            c.report(&ev);
            Some(ev)
        }
        "C02" => {
            let ev = Evidence::new(
                id,
                "exploration",
                tier,
                seed,
                "edge-biased integers (MIN/MAX/0/2^k+-1/10^k+-1), finite f64 bit patterns (random sign/exponent/mantissa, subnormals, table of shortest-repr edge cases), Durations uniform and clustered +-2 around the ms and ns overflow boundaries, packed lists 0..40; oracle parses each numeral back (i128 / bit-identical f64) and demands InvalidInput + zero emits on overflow. Non-trivial: value outside +-2^31, non-integral/subnormal float, Duration within 2 units of a boundary, or list length >= 2; distinct by case hash.",
            );
            let c = FmtCampaign::new("fmt-value", Focus::Value);
            driver::run_random(&c, &ev, &ctx, scale(tier.pick(60_000, 2_000_000)), sh);
            c.report(&ev);
            Some(ev)
        }
        "C03" => {
            let ev = Evidence::new(
                id,
                "fault_enumeration",
                tier,
                seed,
                "histories of 1..12 calls (all entries x forms, valid and overflowing values) on one client over a scripted sink (Accept(any n) | Refuse(io::ErrorKind, unique token)) with a logging error handler; per call the sink-log delta, handler-log delta and result are compared. Thorough additionally enumerates all 2^n accept/refuse scripts for generated call lists with n<=7. Non-trivial: history with both an accepted and a refused/invalid call; distinct by the (entry, form, outcome) sequence.",
            );
            let c = FmtCampaign::new("fmt-outcome", Focus::Outcome);
            driver::run_random(&c, &ev, &ctx, scale(tier.pick(20_000, 400_000)), sh);
            c.report(&ev);
            let x = OutcomeExhaustive::new();
            driver::run_random(&x, &ev, &ctx, scale(tier.pick(300, 6_000)), sh);
            ev.set_exhaustive(false);
            Some(ev)
        }
        "C04" => {
            let ev = Evidence::new(
                id,
                "exploration",
                tier,
                seed,
                "client configurations with 0..6 default tags (key:value and bare, duplicates, empty strings) with/without default container x 1..3 consecutive calls over all entries incl. incr/decr x forms x per-call tag sequences and container overrides; tag and container sections must equal defaults-in-order ++ call-tags-in-order and override-else-default. Non-trivial: >=1 default tag and >=1 call tag, or a per-call container override; distinct by case hash.",
            );
            let c = FmtCampaign::new("fmt-decor", Focus::Decor);
            driver::run_random(&c, &ev, &ctx, scale(tier.pick(40_000, 1_000_000)), sh);
            c.report(&ev);
            Some(ev)
        }
        _ => None,
    }
}

/// Replay one stored case. Returns Ok(outcome) or Err(decoding problem).
pub fn replay(id: &'static str, campaign: &str, case: &serde_json::Value, tier: Tier, seed: u64) -> Result<Outcome, String> {
    let ctx = Ctx::new(id, tier, seed);
    macro_rules! try_camp {
        ($c:expr) => {{
            let c = $c;
            if c.name() == campaign {
                return driver::replay_case(&c, &ctx, case);
            }
        }};
    }
    try_camp!(FmtCampaign::new("fmt-line", Focus::Line));
    try_camp!(FmtCampaign::new("fmt-value", Focus::Value));
    try_camp!(FmtCampaign::new("fmt-outcome", Focus::Outcome));
    try_camp!(FmtCampaign::new("fmt-decor", Focus::Decor));
    try_camp!(OutcomeExhaustive::new());
    Err(format!("unknown campaign '{}'", campaign))
}
