//! Property registry: which campaigns decide which property, with what budgets.

use crate::bytes::{BytesCampaign, Target};
use crate::driver::{self, Campaign, Ctx, Evidence, Outcome, Tier};
use crate::fmt::{FmtCampaign, Focus, OutcomeExhaustive};
use crate::queue::concurrent::ConcCampaign;
use crate::queue::gate::StepOut;
use crate::queue::{self, QGen, QGenKind, QRule, QueueCampaign, QueueCase, QOp};
use crate::sockets::{self, ConcSockCampaign, SGen, SRule, SockCampaign, Transport};
use crate::writer::oracle::Rule;
use crate::writer::{gen_default, FaultTree, Seam, WriterCampaign};

pub const ALL: &[&str] = &[
    "C01", "C02", "C03", "C04", "C05", "C06", "C07", "C08", "C09", "C10", "C11", "C12", "C13", "C14", "C15", "C16", "C17", "C18",
    "C19", "C20",
];

pub fn static_id(id: &str) -> Option<&'static str> {
    ALL.iter().copied().find(|x| *x == id)
}

/// per-property multiplier (percent) of the quick-tier case counts written next to each
/// campaign: the cheap in-memory campaigns are run until a quick check takes ~10-30 s
static QUICK_BOOST_PCT: std::sync::atomic::AtomicU64 = std::sync::atomic::AtomicU64::new(100);

fn quick_boost(id: &str) -> u64 {
    match id {
        "C01" | "C02" | "C03" | "C04" => 600,
        "C05" | "C06" | "C19" => 300,
        "C07" => 400,
        "C13" | "C14" => 500,
        "C17" => 800,
        "C18" => 300,
        "C12" => 200,
        _ => 100,
    }
}

fn scale(n: u32) -> u32 {
    // VERIF_SCALE_PCT lets the sensitivity scripts shorten or lengthen campaigns
    let pct = crate::util::env_u64("VERIF_SCALE_PCT", 100);
    let boost = QUICK_BOOST_PCT.load(std::sync::atomic::Ordering::Relaxed);
    ((n as u64 * pct / 100 * boost / 100).max(1)) as u32
}

/// Run every campaign of a property; returns the evidence (violations inside).
pub fn run(id: &'static str, tier: Tier, seed: u64) -> Option<Evidence> {
    let ctx = Ctx::new(id, tier, seed);
    let sh = driver::shards();
    QUICK_BOOST_PCT.store(if tier == Tier::Quick { quick_boost(id) } else { 100 }, std::sync::atomic::Ordering::Relaxed);
    match id {
        "C01" => {
            let mut ev = Evidence::new(
                id,
                "exploration",
                tier,
                seed,
                "proptest-generated client configuration + 1..2 calls over all 24 entry points x {plain, tagged try_send, tagged quiet send} x builder ops in arbitrary order; judged by an independent reference renderer (exact text, float numerals by parse-back), a round-trip parser on delimiter-free cases and the standalone constructors. Non-trivial: a call with >=2 optional sections, or a packed list of length != 1, or a non-ASCII / dotted-prefix string; distinct by hash of the whole case.",
            );
            ev.assume("f64 numerals are judged with std's str::parse::<f64> (correctly rounded), integers with the harness's own decimal printer");
            let c = FmtCampaign::new("fmt-line", Focus::Line);
            driver::run_random(&c, &ev, &ctx, scale(tier.pick(200_000, 2_000_000)), sh);
            c.report(&ev);
            if ev.violations().is_empty() {
                // the macro call form (one child process per case), judged by the same reference renderer
                driver::run_random(&crate::macros_child::MacroCampaign, &ev, &ctx, scale(tier.pick(300, 5_000)), sh);
            }
            fuzz_tier(id, Target::Fmt, &ev, &ctx, tier);
            Some(ev)
        }
        "C02" => {
            let ev = Evidence::new(
                id,
                "exploration",
                tier,
                seed,
                "edge-biased integers (MIN/MAX/0/2^k+-1/10^k+-1), finite f64 bit patterns (random sign/exponent/mantissa, subnormals, table of shortest-repr edge cases), Durations uniform and clustered +-2 around the ms and ns overflow boundaries, packed lists 0..40; oracle parses each numeral back (i128 / bit-identical f64) and demands InvalidInput + zero emits on overflow; the statsd_* macros must send the same value section as the direct call. Non-trivial: value outside +-2^31, non-integral/subnormal float, Duration within 2 units of a boundary, or list length >= 2; distinct by case hash.",
            );
            let c = FmtCampaign::new("fmt-value", Focus::Value);
            driver::run_random(&c, &ev, &ctx, scale(tier.pick(300_000, 3_000_000)), sh);
            c.report(&ev);
            if ev.violations().is_empty() {
                // the macro call form: same value section as the direct call (one child process per case)
                driver::run_random(&crate::macros_child::MacroValues, &ev, &ctx, scale(tier.pick(400, 6_000)), sh);
            }
            fuzz_tier(id, Target::Fmt, &ev, &ctx, tier);
            Some(ev)
        }
        "C03" => {
            let ev = Evidence::new(
                id,
                "fault_enumeration",
                tier,
                seed,
                "histories of 1..12 calls (all entries x forms, valid and overflowing values) on one client over a scripted sink (Accept(any n) | Refuse(io::ErrorKind, unique token)) with a logging error handler; per call the sink-log delta, handler-log delta and result are compared. Thorough additionally enumerates all 2^n accept/refuse scripts for generated call lists with n<=7. Non-trivial: history with both an accepted and a refused/invalid call; distinct by the (entry, form, outcome) sequence.",
            );
            let c = FmtCampaign::new("fmt-outcome", Focus::Outcome);
            driver::run_random(&c, &ev, &ctx, scale(tier.pick(100_000, 1_000_000)), sh);
            c.report(&ev);
            let x = OutcomeExhaustive::new();
            driver::run_random(&x, &ev, &ctx, scale(tier.pick(1_500, 15_000)), sh);
            ev.set_exhaustive(false);
            Some(ev)
        }
        "C04" => {
            let ev = Evidence::new(
                id,
                "exploration",
                tier,
                seed,
                "client configurations with 0..6 default tags (key:value and bare, duplicates, empty strings) with/without default container x 1..3 consecutive calls over all entries incl. incr/decr x forms x per-call tag sequences and container overrides; tag and container sections must equal defaults-in-order ++ call-tags-in-order and override-else-default. Non-trivial: >=1 default tag and >=1 call tag, or a per-call container override; distinct by case hash.",
            );
            let c = FmtCampaign::new("fmt-decor", Focus::Decor);
            driver::run_random(&c, &ev, &ctx, scale(tier.pick(200_000, 2_000_000)), sh);
            c.report(&ev);
            if ev.violations().is_empty() {
                driver::run_random(&crate::macros_child::MacroCampaign, &ev, &ctx, scale(tier.pick(300, 5_000)), sh);
            }
            Some(ev)
        }
        "C05" | "C06" | "C07" | "C19" => Some(run_writer(id, tier, seed, &ctx, sh)),
        "C08" | "C09" | "C10" | "C11" | "C15" | "C16" => Some(run_queue(id, tier, seed, &ctx, sh)),
        "C13" | "C14" => Some(run_sockets(id, tier, seed, &ctx, sh)),
        "C20" => Some(run_c20(id, tier, seed, &ctx, sh)),
        "C12" => {
            use crate::stress::{StressCampaign, StressSink};
            let mut ev = Evidence::new(
                id,
                "exploration",
                tier,
                seed,
                "2..16 threads share one Arc<StatsdClient> over a buffered sink (spy channel, Unix datagram socket, UDP socket; capacities 24..512); each thread emits 100..1500 counters whose key encodes (thread, sequence number), interleaves client.flush() and seed-derived yields. After the final drop: every datagram consists of whole lines within capacity, every acknowledged metric appears exactly once (UDP: at most once, loss not judged), each thread's sequence numbers increase across the datagram stream (spy and Unix, which are FIFO), every emit/flush returned Ok. Thorough adds a blocking Unix socket whose receiver is not read for 15 ms, so one thread blocks in sendto inside the sink's critical section while the others emit. Non-trivial: a run in which some datagram carries lines of >=2 threads (the lock was really contended); distinct by case hash.",
            );
            ev.assume("OS schedules are sampled, not enumerated, and are not a function of the seed (the seed fixes workloads and yield patterns only)");
            ev.assume("realistic failure modes of a forbid(unsafe) crate here are lock-discipline edits (try_lock, lock released between metric and terminator, per-thread buffers), which heavy contention exposes quickly");
            let c = StressCampaign { name: "stress-shared-client", sinks: &[StressSink::Spy, StressSink::Spy, StressSink::Unix, StressSink::Udp, StressSink::QueuedSpy, StressSink::QueuedSpyBounded], judge_errors: false, framing_only: false, greedy_only: false };
            if driver::run_random(&c, &ev, &ctx, scale(tier.pick(300, 3_000)), 2) {
                let bf = sockets::BlockedFlushCampaign { name: "unix-flush-behind-blocked-emit" };
                driver::run_random(&bf, &ev, &ctx, scale(tier.pick(6, 60)), 4);
            }
            if ev.violations().is_empty() && tier == Tier::Thorough {
                let b = StressCampaign { name: "stress-blocked-receiver", sinks: &[StressSink::UnixBlockedReceiver], judge_errors: false, framing_only: false, greedy_only: false };
                driver::run_random(&b, &ev, &ctx, scale(200), 2);
            }
            Some(ev)
        }
        "C17" => {
            let mut ev = Evidence::new(
                id,
                "exploration",
                tier,
                seed,
                "one fresh child process per generated case = {global client: unset | prefix, default tags, container, handler, sink outcome per invocation; optional second set_global_default}, 1..40 macro invocations over the seven macros x all 22 value types x 0..3 `key => value` tags, every argument wrapped in a counting once(..). Oracle in the parent: exactly one emit whose line equals the reference renderer and the line emitted in the same child by the explicit get_global_default().unwrap().<kind>_with_tags(k, v).with_tag(..)*.send() chain; each argument evaluated once; refusing sink => no panic, the client's handler gets exactly that error; unset => every macro panics. Non-trivial: (default tags or a failing sink) and an invocation with >=2 tags; distinct by case hash.",
            );
            ev.assume("tag counts above 3 are not instantiated (call sites are static)");
            driver::run_random(&crate::macros_child::MacroCampaign, &ev, &ctx, scale(tier.pick(3_000, 40_000)), sh);
            Some(ev)
        }
        #[cfg(cadence_verif)]
        "C18" => Some(run_sched(id, tier, seed, &ctx, sh)),
        _ => None,
    }
}

#[cfg(cadence_verif)]
fn run_sched(id: &'static str, tier: Tier, seed: u64, ctx: &Ctx, sh: u32) -> Evidence {
    use crate::sched::{all_programs, ExhaustiveCampaign, SchedCampaign, SchedCase};
    let mut ev = Evidence::new(
        id,
        "exploration",
        tier,
        seed,
        "thread programs over {set(v), get, is_set} on a fresh SingletonHolder run on real threads under a harness-owned scheduler (scheduling points: start of every call, every atomic operation and every UnsafeCell::get, reported by the cfg(cadence_verif) shim with the Ordering written in the source). Bounded-exhaustive part: every schedule of every program with 2 threads x <=2 ops and 3 threads x 1 op by stateless DFS (thorough adds 2 threads x 3 ops and 3 threads x 2 ops, each cut at 20 000 schedules per program); random part: proptest-generated programs (2..3 threads x 1..3 ops) x schedules. Oracle: write-once register spec with real-time order + vector-clock happens-before check of every cell access. Non-trivial: a reader's load falls inside the LOADING window, or two setters race for the CAS; distinct by (programs, schedule taken).",
    );
    ev.assume("single atomic location: sequentially consistent exploration plus the happens-before check covers the outcomes the C11 model allows for this code");
    ev.assume("cell accesses are classified read/write by comparing the cell bytes at the thread's next scheduling point (all other threads parked)");
    let w = ctx.w();
    let _ = w;
    let ex = ExhaustiveCampaign::new(tier.pick(100_000, 20_000));
    let mut progs: Vec<SchedCase> = Vec::new();
    for p in all_programs(2, 2) {
        progs.push(SchedCase { programs: p, schedule: vec![], spurious: 0 });
    }
    for p in all_programs(3, 1) {
        progs.push(SchedCase { programs: p, schedule: vec![], spurious: 0 });
    }
    if tier == Tier::Thorough {
        for p in all_programs(2, 3) {
            if p.iter().any(|t| t.len() == 3) {
                progs.push(SchedCase { programs: p, schedule: vec![], spurious: 0 });
            }
        }
        for p in all_programs(3, 2) {
            if p.iter().any(|t| t.len() == 2) {
                progs.push(SchedCase { programs: p, schedule: vec![], spurious: 0 });
            }
        }
    }
    let n_programs = progs.len();
    let ok = driver::run_list(&ex, &ev, ctx, progs.into_iter(), sh);
    let scheds = ex.schedules.load(std::sync::atomic::Ordering::Relaxed);
    ev.set_extra("exhaustive_part", serde_json::json!({
        "programs": n_programs,
        "schedules_explored": scheds,
        "schedules_nontrivial": ex.nontrivial_schedules.load(std::sync::atomic::Ordering::Relaxed),
        "programs_cut_by_budget": ex.incomplete.load(std::sync::atomic::Ordering::Relaxed),
    }));
    ev.set_exhaustive(false);
    if ok && driver::run_random(&SchedCampaign, &ev, ctx, scale(tier.pick(60_000, 1_500_000)), sh) {
        // the process-global wrappers: racing setters in a fresh process each (OS-scheduled, sampled)
        driver::run_random(&crate::macros_child::GlobalRace, &ev, ctx, scale(tier.pick(400, 10_000)), sh);
    }
    ev
}

/// the property's view of a libFuzzer target (which findings count for it)
pub fn bytes_campaign(id: &str, target: Target) -> Option<BytesCampaign> {
    let (name, fmt_focus, mlw_focus): (&'static str, Focus, Rule) = match (id, target) {
        ("C01", Target::Fmt) => ("fuzz-fmt-line", Focus::Line, Rule::Panic),
        ("C02", Target::Fmt) => ("fuzz-fmt-value", Focus::Value, Rule::Panic),
        ("C05", Target::Mlw) => ("fuzz-mlw-framing", Focus::Panic, Rule::Framing),
        ("C07", Target::Mlw) => ("fuzz-mlw-faults", Focus::Panic, Rule::Fault),
        ("C19", Target::Mlw) => ("fuzz-mlw-greedy", Focus::Panic, Rule::Greedy),
        ("C20", Target::Fmt) => ("bytes-fmt-panic", Focus::Panic, Rule::Panic),
        ("C20", Target::Mlw) => ("bytes-mlw-panic", Focus::Panic, Rule::Panic),
        ("C20", Target::Api) => ("bytes-api-panic", Focus::Panic, Rule::Panic),
        _ => return None,
    };
    Some(BytesCampaign {
        name,
        target,
        fmt_focus,
        mlw_focus,
    })
}

fn fuzz_tier(id: &'static str, target: Target, ev: &Evidence, ctx: &Ctx, tier: Tier) {
    if tier != Tier::Thorough || !ev.violations().is_empty() {
        return;
    }
    if let Some(c) = bytes_campaign(id, target) {
        let runs = crate::util::env_u64("VERIF_FUZZ_RUNS", 250_000);
        let jobs = crate::util::env_u64("VERIF_FUZZ_JOBS", 12) as u32;
        crate::fuzzrun::run_fuzz(ev, ctx, &c, runs, jobs);
    }
}

/// replay the committed corpus of a target through a bytes campaign
fn corpus_replay(c: &BytesCampaign, ev: &Evidence, ctx: &Ctx, sh: u32) -> bool {
    let dir = std::path::PathBuf::from(std::env::var("VERIF_DIR").unwrap_or_else(|_| "/verif".into())).join("corpus").join(c.target.name());
    let mut cases = Vec::new();
    if let Ok(rd) = std::fs::read_dir(&dir) {
        let mut files: Vec<_> = rd.flatten().map(|e| e.path()).collect();
        files.sort();
        for f in files {
            if let Ok(data) = std::fs::read(&f) {
                cases.push(crate::bytes::BytesCase {
                    target: c.target,
                    hex: crate::bytes::to_hex(&data),
                });
            }
        }
    }
    ev.add_extra_count("committed_corpus_files_replayed", cases.len() as u64);
    driver::run_list(c, ev, ctx, cases.into_iter(), sh)
}

fn run_c20(id: &'static str, tier: Tier, seed: u64, ctx: &Ctx, sh: u32) -> Evidence {
    let mut ev = Evidence::new(
        id,
        "exploration",
        tier,
        seed,
        "three structure-aware byte decoders (the libFuzzer targets' own): fmt = client construction with arbitrary prefix/tags/container + call sequences with arbitrary values incl. NaN/+-inf/Duration::MAX/empty and 100 000-element lists; mlw = capacity 0.., any terminator incl. empty and longer than the capacity, ops, fault scripts; api = spy/queuing constructors with tiny capacities incl. 0, stats helpers, MetricError accessors, Debug/Display impls, standalone constructors, UDP/Unix sinks with literal/invalid addresses. Quick: proptest-generated byte strings + structured fmt/writer cases + the committed corpus; thorough adds libFuzzer campaigns (coverage-guided, -runs fixed) on all three targets. Oracle: catch_unwind around every call, built with overflow checks and debug assertions; any panic not injected by the harness is a violation. Non-trivial: a case hitting a documented edge class (capacity <= |terminator| or empty terminator, empty key and prefix, list of 0 or > 1000 elements, Duration values, queue/buffer capacity <= 1-2); distinct by input hash.",
    );
    ev.assume("buffer capacities <= 1 MiB and queue capacities <= 4096 (allocator aborts on absurd capacities are std's contract, not C20's); address inputs are IP literals or strings that fail before DNS; cadence::test (doc-hidden) is not API");
    for t in [Target::Fmt, Target::Mlw, Target::Api] {
        let c = bytes_campaign(id, t).unwrap();
        if !corpus_replay(&c, &ev, ctx, sh) {
            return ev;
        }
        if !driver::run_random(&c, &ev, ctx, scale(tier.pick(15_000, 300_000)), sh) {
            return ev;
        }
    }
    let f = FmtCampaign::new("fmt-panic", Focus::Panic);
    if !driver::run_random(&f, &ev, ctx, scale(tier.pick(15_000, 300_000)), sh) {
        return ev;
    }
    let mut g = gen_default(30, true);
    g.big_caps = 1;
    g.short_writes = true;
    let wc = WriterCampaign::new("mlw-panic", Rule::Panic, Seam::Mlw, g);
    if !driver::run_random(&wc, &ev, ctx, scale(tier.pick(10_000, 200_000)), sh) {
        return ev;
    }
    let wt = WriterCampaign::new("mlw-panic-tinycap", Rule::Panic, Seam::MlwTiny, {
        let mut g = gen_default(20, true);
        g.short_writes = true;
        g
    });
    if !driver::run_random(&wt, &ev, ctx, scale(tier.pick(5_000, 100_000)), sh) {
        return ev;
    }
    // public accessors must not panic under concurrency either (overflow checks on)
    let sp = ConcCampaign { name: "queue-sampler-panic", focus: QRule::Panic };
    if !driver::run_random(&sp, &ev, ctx, scale(tier.pick(1_000, 8_000)), 8) {
        return ev;
    }
    for t in [Target::Fmt, Target::Mlw, Target::Api] {
        fuzz_tier(id, t, &ev, ctx, tier);
    }
    ev
}

fn sgen(transport: Option<Transport>, buffered: Option<bool>, faults: bool, queued_p: f64, max_ops: usize) -> SGen {
    SGen {
        transport,
        buffered,
        faults,
        queued_p,
        max_ops,
    }
}

/// socket seams (c) Unix and (d) UDP of the writer properties
fn socket_seams(id: &str) -> Vec<(SockCampaign, u32, u32)> {
    let (rule, faults) = match id {
        "C05" => (Rule::Framing, false),
        "C06" => (Rule::Conservation, false),
        "C07" => (Rule::Fault, true),
        "C19" => (Rule::Greedy, false),
        _ => return vec![],
    };
    let names: [&'static str; 2] = match id {
        "C05" => ["unix-buffered-framing", "udp-buffered-framing"],
        "C06" => ["unix-buffered-conservation", "udp-buffered-conservation"],
        "C07" => ["unix-buffered-faults", "udp-buffered-faults"],
        _ => ["unix-buffered-greedy", "udp-buffered-greedy"],
    };
    let mut extra = Vec::new();
    if matches!(id, "C05" | "C06") {
        let n: &'static str = if id == "C05" { "unix-buffered-framing-faults" } else { "unix-buffered-conservation-faults" };
        extra.push((
            SockCampaign { name: n, focus: SRule::Trace(rule), gen: sgen(Some(Transport::Unix), Some(true), true, 0.0, 30) },
            2_000u32,
            30_000u32,
        ));
    }
    let mut v = vec![
        (
            SockCampaign { name: names[0], focus: SRule::Trace(rule), gen: sgen(Some(Transport::Unix), Some(true), faults, 0.0, 30) },
            if faults { 1_500 } else { 4_000 },
            30_000,
        ),
        (
            // UDP: "faults" = datagrams above the 65507-byte limit (EMSGSIZE), generated for every writer property
            SockCampaign { name: names[1], focus: SRule::Trace(rule), gen: sgen(Some(Transport::Udp), Some(true), true, 0.0, 30) },
            if faults { 1_000 } else { 4_000 },
            30_000,
        ),
    ];
    v.extend(extra);
    v
}

fn sock_campaigns(id: &str) -> Vec<(SockCampaign, u32, u32)> {
    match id {
        "C13" => vec![
            (SockCampaign { name: "sock-wire-unbuffered", focus: SRule::Wire, gen: sgen(None, Some(false), true, 0.0, 12) }, 6_000, 150_000),
            (SockCampaign { name: "sock-wire-buffered", focus: SRule::Wire, gen: sgen(None, Some(true), false, 0.0, 30) }, 5_000, 150_000),
            (SockCampaign { name: "sock-wire-buffered-unix-faults", focus: SRule::Wire, gen: sgen(Some(Transport::Unix), Some(true), true, 0.0, 30) }, 3_000, 80_000),
            (SockCampaign { name: "sock-wire-buffered-udp-oversize", focus: SRule::Wire, gen: sgen(Some(Transport::Udp), Some(true), true, 0.0, 20) }, 2_000, 50_000),
        ],
        "C14" => vec![
            (SockCampaign { name: "sock-telemetry", focus: SRule::Telemetry, gen: sgen(None, None, true, 0.3, 25) }, 8_000, 200_000),
            (SockCampaign { name: "sock-telemetry-unix-faults", focus: SRule::Telemetry, gen: sgen(Some(Transport::Unix), None, true, 0.3, 30) }, 4_000, 100_000),
        ],
        _ => vec![],
    }
}

fn run_sockets(id: &'static str, tier: Tier, seed: u64, ctx: &Ctx, sh: u32) -> Evidence {
    let (rule,) = match id {
        "C13" => ("generated metric strings (empty, 1 byte, multi-byte UTF-8, containing newlines, sizes clustered at the buffer capacity, 512/1432/8192 and the datagram limit: 65507 for UDP / 100 kB for Unix, one above for the error path) x blocking/non-blocking x unbuffered/buffered(capacities, default constructor) x three ToSocketAddrs forms (the slice form lists a decoy second) on real 127.0.0.1 UDP and Unix datagram sockets; unbuffered: exactly one datagram per Ok emit with payload == metric bytes, returned count == length, nothing on Err, nothing at the decoy; buffered: trace oracle with terminator '\\n', remainder on flush and drop. Receiver restart (udp-receiver-restart): the UDP receiver is closed and re-bound on the same port between generated phases of emits/flushes; an identical sink whose receiver never goes away makes the same calls (metamorphic: an unconnected socket cannot observe its peer): same result per call, same datagrams per call whenever the receiver is bound, nothing at the decoy (non-trivial there: a datagram left while the receiver was gone and one arrived after the restart). Non-trivial: non-ASCII or >512-byte payload, or a buffered run with >=2 datagrams; distinct by case hash.",),
        _ => ("socket histories with real failures (oversize datagrams EMSGSIZE; Unix: receiver queue full EAGAIN, receiver closed ECONNREFUSED, re-bound) for the four socket sinks, 30% wrapped in a QueuingMetricSink; after every operation stats() must equal ground truth: sent = count/size of datagrams actually received, dropped = count/size of refused attempts derived from Err results (unbuffered: the metric; buffered: everything pending, or the oversized metric). Concurrent mode: 2..8 threads on one unbuffered sink, totals exact after join. Receiver restart (udp-receiver-restart-stats): UDP receiver closed and re-bound between phases, stats() after every call equal to those of an identical sink making the same calls against a receiver that never goes away, and for unbuffered sinks to the Ok/Err results. Non-trivial: >=1 sent and >=1 dropped datagram in one history; distinct by case hash.",),
    };
    let mut ev = Evidence::new(id, "exploration", tier, seed, rule);
    ev.assume("loopback UDP delivers a datagram before sendto returns or within the 2 s grace poll; Unix datagram sockets are reliable and synchronous");
    if id == "C14" {
        let bad = sockets::counter_volume_checks(tier == Tier::Thorough);
        if let Some(b) = bad.first() {
            ev.add_violation(driver::Violation {
                campaign: "counter-volume".into(),
                reason: b.clone(),
                case: serde_json::json!({"fixed": "4300 refused emits of 1 MiB on one UDP sink (thorough: plus 72000 accepted emits of 60000 B)"}),
            });
            return ev;
        }
    }
    if id == "C13" {
        let bad = sockets::addr_resolution_checks();
        if let Some(b) = bad.first() {
            ev.add_violation(driver::Violation {
                campaign: "addr-resolution".into(),
                reason: b.clone(),
                case: serde_json::json!({"fixed": "ToSocketAddrs yielding no address must give InvalidInput"}),
            });
            return ev;
        }
    }
    for (c, q, t) in sock_campaigns(id) {
        if !driver::run_random(&c, &ev, ctx, scale(tier.pick(q, t)), sh) {
            return ev;
        }
    }
    if ev.violations().is_empty() {
        // the receiver goes away and comes back on the same port (unconnected socket: invisible to the sink)
        let c = sockets::UdpRestart { name: if id == "C14" { "udp-receiver-restart-stats" } else { "udp-receiver-restart" }, telemetry: id == "C14" };
        if !driver::run_random(&c, &ev, ctx, scale(tier.pick(400, 12_000)), sh) {
            return ev;
        }
    }
    if id == "C14" && driver::run_random(&ConcSockCampaign, &ev, ctx, scale(tier.pick(60, 1_000)), 2) {
        driver::run_random(&sockets::QueueStatsIdentity, &ev, ctx, scale(tier.pick(200, 3_000)), sh);
    }
    if id == "C13" && ev.violations().is_empty() {
        // "send what remains when flushed": a flush behind an emit that is blocked inside the sink
        let c = sockets::BlockedFlushCampaign { name: "unix-flush-behind-blocked-emit" };
        driver::run_random(&c, &ev, ctx, scale(tier.pick(8, 100)), 4);
    }
    ev
}

fn qgen(emit_w: u32, clone_w: u32, drop_w: u32, step_w: u32, err_w: u32, panic_w: u32, handler_p: f64) -> QGenKind {
    QGenKind::General(QGen {
        flush_w: 1,
        max_ops: 40,
        emit_w,
        clone_w,
        drop_w,
        step_w,
        err_w,
        panic_w,
        handler_p,
    })
}

fn queue_campaigns(id: &str) -> Vec<(QueueCampaign, u32, u32)> {
    match id {
        "C08" => vec![(QueueCampaign::new("queue-deliver", QRule::Deliver, qgen(5, 2, 2, 4, 1, 1, 0.3)), 20_000, 300_000)],
        "C09" => vec![
            (QueueCampaign::new("queue-endings", QRule::Shutdown, QGenKind::Endings), 10_000, 150_000),
            (QueueCampaign::new("queue-shutdown-general", QRule::Shutdown, qgen(5, 2, 3, 3, 1, 1, 0.3)), 5_000, 60_000),
        ],
        "C10" => vec![(QueueCampaign::new("queue-isolation", QRule::Isolation, qgen(8, 1, 0, 2, 2, 2, 0.3)), 15_000, 200_000)],
        "C11" => vec![(QueueCampaign::new("queue-panics", QRule::Panics, qgen(5, 1, 1, 5, 1, 5, 0.3)), 8_000, 120_000)],
        "C15" => vec![(QueueCampaign::new("queue-counters", QRule::Counters, qgen(8, 1, 1, 3, 1, 2, 0.3)), 15_000, 200_000)],
        "C16" => vec![(QueueCampaign::new("queue-handler", QRule::Handler, qgen(5, 1, 1, 5, 6, 1, 0.75)), 15_000, 200_000)],
        _ => vec![],
    }
}

/// {outcomes}^n patterns: n emits, then n steps (for C11 / C16 enumeration)
fn pattern_enumeration(outcomes: &[StepOut], max_n: usize, caps: &[Option<usize>], stop_positions: bool) -> Vec<QueueCase> {
    let mut out = Vec::new();
    for n in 1..=max_n {
        let total = outcomes.len().pow(n as u32);
        for code in 0..total {
            let mut c = code;
            let pat: Vec<StepOut> = (0..n)
                .map(|_| {
                    let o = outcomes[c % outcomes.len()];
                    c /= outcomes.len();
                    o
                })
                .collect();
            for cap in caps {
                if let Some(cc) = cap {
                    if *cc + 1 < n {
                        continue;
                    }
                }
                // stop position: the final drop happens after `d` steps (0..=n), or never (implicit ending)
                let drops: Vec<Option<usize>> = if stop_positions { (0..=n).map(Some).collect() } else { vec![None] };
                for d in drops {
                    for handler in [false, true] {
                        let mut ops: Vec<QOp> = (0..n).map(|i| QOp::Emit(i as u16)).collect();
                        for (i, o) in pat.iter().enumerate() {
                            if d == Some(i) {
                                ops.push(QOp::Drop(0));
                            }
                            ops.push(QOp::Step(*o));
                        }
                        out.push(QueueCase { cap: *cap, handler, handler_first: n % 2 == 0, direct_ctor: !handler && n % 3 == 0, flush_fails: handler && n % 2 == 1, ops });
                    }
                }
            }
        }
    }
    out
}

fn run_queue(id: &'static str, tier: Tier, seed: u64, ctx: &Ctx, sh: u32) -> Evidence {
    let (level, rule) = match id {
        "C08" => ("exploration", "generated histories {emit on handle h, clone, drop handle, let the wrapped sink finish one metric with ok/err/panic} on bounded (1,2,3,5,8,16) and unbounded queues over a gated wrapped sink; the harness owns the worker's schedule through the gate and a FIFO spec model predicts every hand-over (exactly once, acceptance order); liveness = within W of a state in which the model proves the hand-over due. Concurrent mode: 2..8 producers on their own clones, per-producer acknowledged sequence must equal the delivered one (OS schedules sampled). Non-trivial: a handle dropped while another handle emits later, or >=2 handles emitting alternately; concurrent: producers interleaved in the sink log; distinct by case hash."),
        "C09" => ("exploration", "endings: capacity x occupancy at the final drop (0..=capacity, incl. completely full with one metric in the worker's hand) x outcome pattern {ok,err,panic}^k x position of the drop relative to steps; all accepted metrics handed over in order, wrapped sink dropped (Drop observed) within W, every drop(handle) returns while the gate is held closed, nothing after release. The space capacity<=3 x occupancy x {ok,err,panic}^k is enumerated exhaustively. Non-trivial: final drop with >=1 metric still queued; distinct by case hash."),
        "C10" => ("exploration", "histories with the gate closed for long stretches (no handle drops): emit returns within W with Ok(len) iff model occupancy < capacity else Err; occupancy never exceeds capacity; unbounded never refuses; wrapped sink never runs on a producer thread; scripted errors/panics never surface. Concurrent closed-gate mode: min(attempts, cap) <= accepted <= cap+1. Panic storm: 1..6 producers emit into a queue with room for every attempt while the wrapped sink panics/fails in a generated repeating pattern (worker threads unwind and are replaced): every emit returns Ok(len) promptly. Non-trivial: a bounded history that reaches occupancy == capacity and later accepts again; distinct by case hash."),
        "C11" => ("fault_enumeration", "outcome patterns over {ok,err,panic} with emits before/between steps and the final drop at a generated point; all non-panicking accepted metrics delivered once in order, panicking one not re-delivered, later emits still accepted and delivered, panics() never exceeds and within W reaches the number of injected panics; {ok,err,panic}^n for n<=5 x stop position enumerated exhaustively. Panic storm: concurrent producers against a repeating outcome pattern, per-producer delivery and panics() exact afterwards. Non-trivial: >=2 consecutive panics, or a panic on the first/last queued metric, or a panic with a stop pending; distinct by case hash."),
        "C15" => ("exploration", "queue histories with accepted and refused emits, steps, panics, clones; after every operation (a quiescent point: the worker holds the next metric or nothing is due) submitted == #Ok emits, drained == #hand-overs, queued == their difference. Sampler mode: producers + a thread reading queued() then submitted(): queued <= submitted and <= attempts. Non-trivial: history with >=1 refused emit and >=1 panic; sampler runs with interleaving or a transient drained > submitted observed; distinct by case hash."),
        _ => ("fault_enumeration", "outcome patterns {ok(len), ok(0), err(kind, token)}^n with and without a configured handler: each error is followed, before the next metric is entered, by exactly one handler call carrying that error, on the worker thread; never for an accepted metric (Ok(len) or the Ok(0) that NopMetricSink-like sinks return); without a handler later metrics are delivered in order. {ok,ok0,err}^n for n<=8 enumerated exhaustively. Non-trivial: >=2 errors with an Ok between them; distinct by case hash."),
    };
    let mut ev = Evidence::new(id, level, tier, seed, rule);
    ev.assume("liveness ('eventually') is decided as: within W (default 4 s) of a state in which the spec model proves the event due and the harness holds every gate that could delay it");
    for (c, q, t) in queue_campaigns(id) {
        if !driver::run_random(&c, &ev, ctx, scale(tier.pick(q, t)), sh) {
            return ev;
        }
    }
    let all3 = [StepOut::Ok, StepOut::Err(1), StepOut::Panic];
    match id {
        "C08" => {
            let c = ConcCampaign { name: "queue-deliver-concurrent", focus: QRule::Deliver };
            if driver::run_random(&c, &ev, ctx, scale(tier.pick(100, 1_500)), 4) {
                let f = crate::queue::concurrent::FirstEmitRace { name: "queue-first-emit-race", focus: QRule::Deliver };
                if driver::run_random(&f, &ev, ctx, scale(tier.pick(40, 600)), 4) {
                    let ch = crate::queue::concurrent::ChainedQueues { name: "queue-deliver-chained", focus: QRule::Deliver };
                    driver::run_random(&ch, &ev, ctx, scale(tier.pick(300, 5_000)), 4);
                }
            }
            ev.set_exhaustive(false);
        }
        "C09" => {
            let c = QueueCampaign::new("queue-endings-enumerated", QRule::Shutdown, QGenKind::Endings);
            let cases = queue::ending_enumeration(tier.pick(3, 4), &all3);
            if driver::run_list(&c, &ev, ctx, cases.into_iter(), sh) {
                // concurrent producers on their own clones (first emits released by a barrier), then all
                // handles dropped: the wrapped sink must still be released (OS schedules sampled)
                let cc = ConcCampaign { name: "queue-shutdown-concurrent", focus: QRule::Shutdown };
                if driver::run_random(&cc, &ev, ctx, scale(tier.pick(100, 1_500)), 4) {
                    let f = crate::queue::concurrent::FirstEmitRace { name: "queue-first-emit-race-shutdown", focus: QRule::Shutdown };
                    if driver::run_random(&f, &ev, ctx, scale(tier.pick(40, 600)), 4) {
                        // the drop races with the worker's start-up / parking (zero-capacity queues included)
                        driver::run_random(&crate::queue::concurrent::DropRace, &ev, ctx, scale(tier.pick(32, 1_000)), 2);
                    }
                }
            }
            ev.set_extra("exhaustive_part", serde_json::json!("capacity 1..=3 (thorough: 4) and unbounded x occupancy 0..=capacity x worker holding a metric x {ok,err,panic}^k x handler on/off: enumerated completely; random campaigns are not exhaustive"));
            ev.set_exhaustive(false);
        }
        "C10" => {
            let c = ConcCampaign { name: "queue-isolation-concurrent", focus: QRule::Isolation };
            if driver::run_random(&c, &ev, ctx, scale(tier.pick(100, 1_500)), 4)
                && driver::run_random(&crate::queue::concurrent::LastSlotRace, &ev, ctx, scale(tier.pick(60, 1_000)), 4)
            {
                // producers emit while worker threads unwind from panics and are replaced
                let ps = crate::queue::concurrent::PanicStorm { name: "queue-isolation-panic-storm", focus: QRule::Isolation };
                if driver::run_random(&ps, &ev, ctx, scale(tier.pick(80, 1_500)), 4) {
                    // emits made on a worker thread (chained queuing sinks)
                    let ch = crate::queue::concurrent::ChainedQueues { name: "queue-isolation-chained", focus: QRule::Isolation };
                    driver::run_random(&ch, &ev, ctx, scale(tier.pick(300, 5_000)), 4);
                }
            }
        }
        "C11" => {
            let c = QueueCampaign::new("queue-panics-enumerated", QRule::Panics, QGenKind::Endings);
            let cases = pattern_enumeration(&all3, tier.pick(4, 6), &[None, Some(2), Some(8)], true);
            if driver::run_list(&c, &ev, ctx, cases.into_iter(), sh) {
                let ps = crate::queue::concurrent::PanicStorm { name: "queue-panic-storm", focus: QRule::Panics };
                driver::run_random(&ps, &ev, ctx, scale(tier.pick(60, 1_000)), 4);
            }
            ev.set_extra("exhaustive_part", serde_json::json!("{ok,err,panic}^n for n<=4 (thorough: 6) x final-drop position x capacities {unbounded,2,8} x handler on/off: enumerated completely"));
            ev.set_exhaustive(false);
        }
        "C15" => {
            let c = ConcCampaign { name: "queue-counters-sampler", focus: QRule::Counters };
            driver::run_random(&c, &ev, ctx, scale(tier.pick(150, 2_000)), 2);
        }
        "C16" => {
            let c = QueueCampaign::new("queue-handler-enumerated", QRule::Handler, QGenKind::Endings);
            let cases = pattern_enumeration(&[StepOut::Ok, StepOut::Err(3), StepOut::OkZero], tier.pick(6, 8), &[None], false);
            if driver::run_list(&c, &ev, ctx, cases.into_iter(), sh) {
                // a handler that reports through a second queuing sink (which has a handler of its own)
                driver::run_random(&crate::queue::concurrent::HandlerChain, &ev, ctx, scale(tier.pick(400, 6_000)), 4);
            }
            ev.set_extra("exhaustive_part", serde_json::json!("{ok(len), ok(0), err}^n for n<=6 (thorough: 8) x handler on/off: enumerated completely"));
            ev.set_exhaustive(false);
        }
        _ => {}
    }
    ev
}

fn writer_campaigns(id: &str) -> Vec<(WriterCampaign, u32, u32)> {
    // (campaign, quick cases, thorough cases)
    match id {
        "C05" => vec![
            (WriterCampaign::new("mlw-framing", Rule::Framing, Seam::Mlw, gen_default(40, false)), 200_000, 3_000_000),
            (WriterCampaign::new("mlw-framing-tinycap", Rule::Framing, Seam::MlwTiny, gen_default(30, false)), 40_000, 500_000),
            (WriterCampaign::new("spy-framing", Rule::Framing, Seam::Spy, gen_default(40, false)), 20_000, 300_000),
            (WriterCampaign::new("spy-default-framing", Rule::Framing, Seam::SpyDefault, gen_default(12, false)), 4_000, 60_000),
            // failures of the underlying writer must not break the framing of later writes either
            (WriterCampaign::new("mlw-framing-faults", Rule::Framing, Seam::Mlw, gen_default(30, true)), 80_000, 1_000_000),
            (WriterCampaign::new("mlw-framing-faults-tinycap", Rule::Framing, Seam::MlwTiny, gen_default(20, true)), 20_000, 200_000),
        ],
        "C06" => vec![
            (WriterCampaign::new("mlw-conservation", Rule::Conservation, Seam::Mlw, gen_default(40, false)), 150_000, 2_000_000),
            (WriterCampaign::new("mlw-conservation-tinycap", Rule::Conservation, Seam::MlwTiny, gen_default(30, false)), 20_000, 400_000),
            (WriterCampaign::new("spy-conservation", Rule::Conservation, Seam::Spy, gen_default(40, false)), 12_000, 200_000),
            (WriterCampaign::new("client-spy-conservation", Rule::Conservation, Seam::ClientSpy, gen_default(40, false)), 20_000, 300_000),
            // conservation across failed writes: a flush may only report Ok once everything is out
            (WriterCampaign::new("mlw-conservation-faults", Rule::Conservation, Seam::Mlw, gen_default(30, true)), 80_000, 1_000_000),
            (WriterCampaign::new("spy-bounded-conservation-faults", Rule::Conservation, Seam::SpyBounded, gen_default(30, true)), 10_000, 150_000),
            (WriterCampaign::new("queue-client-spy-conservation", Rule::Conservation, Seam::QueueClientSpy, { let mut g = gen_default(25, false); g.clone_drop_weight = 1; g }), 4_000, 80_000),
        ],
        "C07" => vec![
            (WriterCampaign::new("mlw-faults", Rule::Fault, Seam::Mlw, gen_default(30, true)), 200_000, 2_000_000),
            (WriterCampaign::new("mlw-faults-tinycap", Rule::Fault, Seam::MlwTiny, gen_default(20, true)), 40_000, 400_000),
            (WriterCampaign::new("spy-bounded-faults", Rule::Fault, Seam::SpyBounded, gen_default(30, true)), 20_000, 300_000),
        ],
        "C19" => {
            let mut long = gen_default(200, false);
            long.flush_weight = 1;
            vec![
                (WriterCampaign::new("mlw-greedy", Rule::Greedy, Seam::Mlw, gen_default(40, false)), 100_000, 1_500_000),
                (WriterCampaign::new("mlw-greedy-long", Rule::Greedy, Seam::Mlw, long), 30_000, 600_000),
                (WriterCampaign::new("mlw-greedy-tinycap", Rule::Greedy, Seam::MlwTiny, gen_default(30, false)), 12_000, 200_000),
                (WriterCampaign::new("spy-greedy", Rule::Greedy, Seam::Spy, long), 6_000, 150_000),
                // a failed write must not make later datagrams less full than they have to be
                (WriterCampaign::new("mlw-greedy-faults", Rule::Greedy, Seam::Mlw, gen_default(40, true)), 60_000, 800_000),
                // the production stack: clones of a queuing handle come and go in front of a buffered sink
                (WriterCampaign::new("queue-client-spy-greedy", Rule::Greedy, Seam::QueueClientSpy, { let mut g = gen_default(25, false); g.clone_drop_weight = 2; g }), 3_000, 60_000),
            ]
        }
        _ => vec![],
    }
}

fn run_writer(id: &'static str, tier: Tier, seed: u64, ctx: &Ctx, sh: u32) -> Evidence {
    let (level, rule) = match id {
        "C05" => ("exploration", "generated (capacity incl. 0/1/|term|+-1/exact-fit, terminator, history of emits with lengths clustered at exact fit / one off / 0 / up to 2x capacity and contents containing the terminator bytes, explicit flushes, final drop); every underlying write is matched by FIFO position against the accepted-and-unwritten metrics: whole lines within capacity, or the lone oversized metric. Non-trivial: >=1 automatic flush AND (an exact-fit metric or an oversized bypass); distinct by case hash."),
        "C06" => ("exploration", "same histories; conservation rules: Ok = byte length, exactly once and byte for byte, buffered metrics in emit order, oversized within own emit, flush Ok => nothing pending, second flush writes nothing, drop flushes the rest; seams: MultiLineWriter over a recording writer, buffered spy sink, StatsdClient::flush over the buffered spy sink (queuing wrapper: see campaign queue-flush). Non-trivial: >=2 automatic flushes followed by an explicit flush or drop with data pending; distinct by case hash."),
        "C07" => ("fault_enumeration", "histories x fault scripts over the underlying write attempts (all-or-nothing; 13 io::ErrorKinds incl. Interrupted; unique token per failure; consecutive failures; failures on the bypass path and during drop); fault rules of the trace oracle; bounded spy channel as a real injector. Thorough enumerates the whole fail/succeed tree (depth 10) for generated op lists. Non-trivial: >=1 failed call followed by a successful write carrying metrics accepted earlier; distinct by case hash."),
        _ => ("exploration", "fault-free histories up to 200 emits; every write made during an emit must be forced (next metric+terminator does not fit, or the write carries the metric and exactly fills the capacity), an emit that fits writes nothing, flush/drop carry everything pending in one datagram (=> datagram count equals in-order first-fit packing). Non-trivial: >=3 automatic flushes; distinct by case hash."),
    };
    let ev = Evidence::new(id, level, tier, seed, rule);
    for (c, q, t) in writer_campaigns(id) {
        if !driver::run_random(&c, &ev, ctx, scale(tier.pick(q, t)), sh) {
            return ev;
        }
    }
    for (c, q, t) in socket_seams(id) {
        if !driver::run_random(&c, &ev, ctx, scale(tier.pick(q, t)), sh) {
            return ev;
        }
    }
    if id == "C05" {
        // the shape of every datagram must also hold when several threads share the sink
        let sc = crate::stress::StressCampaign {
            name: "stress-framing",
            sinks: &[
                crate::stress::StressSink::Unix,
                crate::stress::StressSink::Udp,
                crate::stress::StressSink::UnixBlockedReceiver,
                crate::stress::StressSink::Spy,
            ],
            judge_errors: false,
            framing_only: true,
            greedy_only: false,
        };
        if !driver::run_random(&sc, &ev, ctx, scale(tier.pick(40, 600)), 2) {
            return ev;
        }
    }
    if id == "C07" {
        // real pending socket errors (connected UDP socket, peer gone for a moment): nothing twice, refused never written
        if !driver::run_random(&sockets::ConnectedUdpOnce, &ev, ctx, scale(tier.pick(150, 3_000)), 2) {
            return ev;
        }
    }
    if id == "C19" {
        // a connected UDP socket whose peer was gone for a moment (pending socket error)
        if !driver::run_random(&sockets::ConnectedUdpGreedy, &ev, ctx, scale(tier.pick(100, 2_000)), 2) {
            return ev;
        }
        // greedy packing must also hold when several threads share the sink (no explicit flushes)
        let sc = crate::stress::StressCampaign {
            name: "stress-greedy",
            sinks: &[
                crate::stress::StressSink::Udp,
                crate::stress::StressSink::Unix,
                crate::stress::StressSink::Spy,
                crate::stress::StressSink::QueuedSpy,
            ],
            judge_errors: false,
            framing_only: false,
            greedy_only: true,
        };
        if !driver::run_random(&sc, &ev, ctx, scale(tier.pick(40, 600)), 2) {
            return ev;
        }
    }
    if id == "C06" {
        // flush Ok => written, also under concurrency: flush markers on the spy channel and a flush
        // issued behind an emit that is blocked inside a Unix sink
        let sc = crate::stress::StressCampaign {
            name: "stress-flush-markers",
            sinks: &[crate::stress::StressSink::Spy],
            judge_errors: false,
            framing_only: false,
            greedy_only: false,
        };
        if !driver::run_random(&sc, &ev, ctx, scale(tier.pick(40, 600)), 2) {
            return ev;
        }
        let c = sockets::BlockedFlushCampaign { name: "unix-flush-behind-blocked-emit" };
        if !driver::run_random(&c, &ev, ctx, scale(tier.pick(6, 60)), 4) {
            return ev;
        }
    }
    if id == "C07" {
        // with a channel that never fails, concurrent emits/flushes must not return errors
        let sc = crate::stress::StressCampaign {
            name: "stress-no-spurious-errors",
            sinks: &[crate::stress::StressSink::Spy, crate::stress::StressSink::Unix],
            judge_errors: true,
            framing_only: false,
            greedy_only: false,
        };
        if !driver::run_random(&sc, &ev, ctx, scale(tier.pick(30, 600)), 2) {
            return ev;
        }
        let ft = FaultTree { depth: 10 };
        driver::run_random(&ft, &ev, ctx, scale(tier.pick(600, 6_000)), sh);
        ev.set_exhaustive(false);
    }
    if matches!(id, "C05" | "C07" | "C19") {
        fuzz_tier(id, Target::Mlw, &ev, ctx, tier);
    }
    ev
}

/// Replay one stored case. Returns Ok(outcome) or Err(decoding problem).
pub fn replay(id: &'static str, campaign: &str, case: &serde_json::Value, tier: Tier, seed: u64) -> Result<Outcome, String> {
    let ctx = Ctx::new(id, tier, seed);
    macro_rules! try_camp {
        ($c:expr) => {{
            let c = $c;
            if c.name() == campaign {
                return driver::replay_case(&c, &ctx, case);
            }
        }};
    }
    try_camp!(FmtCampaign::new("fmt-line", Focus::Line));
    try_camp!(FmtCampaign::new("fmt-value", Focus::Value));
    try_camp!(FmtCampaign::new("fmt-outcome", Focus::Outcome));
    try_camp!(FmtCampaign::new("fmt-decor", Focus::Decor));
    try_camp!(OutcomeExhaustive::new());
    for pid in ["C05", "C06", "C07", "C19"] {
        for (c, _, _) in writer_campaigns(pid) {
            try_camp!(c);
        }
    }
    try_camp!(FaultTree { depth: 10 });
    for pid in ["C08", "C09", "C10", "C11", "C15", "C16"] {
        for (c, _, _) in queue_campaigns(pid) {
            try_camp!(c);
        }
    }
    try_camp!(QueueCampaign::new("queue-endings-enumerated", QRule::Shutdown, QGenKind::Endings));
    try_camp!(QueueCampaign::new("queue-panics-enumerated", QRule::Panics, QGenKind::Endings));
    try_camp!(QueueCampaign::new("queue-handler-enumerated", QRule::Handler, QGenKind::Endings));
    try_camp!(ConcCampaign { name: "queue-deliver-concurrent", focus: QRule::Deliver });
    try_camp!(ConcCampaign { name: "queue-shutdown-concurrent", focus: QRule::Shutdown });
    try_camp!(ConcCampaign { name: "queue-isolation-concurrent", focus: QRule::Isolation });
    try_camp!(ConcCampaign { name: "queue-counters-sampler", focus: QRule::Counters });
    try_camp!(ConcCampaign { name: "queue-sampler-panic", focus: QRule::Panic });
    try_camp!(crate::queue::concurrent::LastSlotRace);
    try_camp!(crate::queue::concurrent::DropRace);
    try_camp!(sockets::ConnectedUdpGreedy);
    try_camp!(sockets::ConnectedUdpOnce);
    try_camp!(sockets::UdpRestart { name: "udp-receiver-restart", telemetry: false });
    try_camp!(sockets::UdpRestart { name: "udp-receiver-restart-stats", telemetry: true });
    try_camp!(crate::queue::concurrent::HandlerChain);
    try_camp!(crate::queue::concurrent::FirstEmitRace { name: "queue-first-emit-race", focus: QRule::Deliver });
    try_camp!(crate::queue::concurrent::FirstEmitRace { name: "queue-first-emit-race-shutdown", focus: QRule::Shutdown });
    for pid in ["C05", "C06", "C07", "C19"] {
        for (c, _, _) in socket_seams(pid) {
            try_camp!(c);
        }
    }
    for pid in ["C13", "C14"] {
        for (c, _, _) in sock_campaigns(pid) {
            try_camp!(c);
        }
    }
    try_camp!(ConcSockCampaign);
    try_camp!(sockets::QueueStatsIdentity);
    try_camp!(crate::macros_child::MacroCampaign);
    try_camp!(crate::macros_child::MacroValues);
    try_camp!(crate::macros_child::GlobalRace);
    for pid in ["C01", "C02", "C05", "C07", "C19", "C20"] {
        for t in [Target::Fmt, Target::Mlw, Target::Api] {
            if let Some(c) = bytes_campaign(pid, t) {
                try_camp!(c);
            }
        }
    }
    try_camp!(FmtCampaign::new("fmt-panic", Focus::Panic));
    try_camp!(WriterCampaign::new("mlw-panic", Rule::Panic, Seam::Mlw, gen_default(30, true)));
    try_camp!(WriterCampaign::new("mlw-panic-tinycap", Rule::Panic, Seam::MlwTiny, gen_default(20, true)));
    try_camp!(crate::stress::StressCampaign { name: "stress-shared-client", sinks: &[crate::stress::StressSink::Spy], judge_errors: false, framing_only: false, greedy_only: false });
    try_camp!(crate::stress::StressCampaign { name: "stress-blocked-receiver", sinks: &[crate::stress::StressSink::UnixBlockedReceiver], judge_errors: false, framing_only: false, greedy_only: false });
    try_camp!(crate::stress::StressCampaign { name: "stress-no-spurious-errors", sinks: &[crate::stress::StressSink::Spy], judge_errors: true, framing_only: false, greedy_only: false });
    try_camp!(crate::stress::StressCampaign { name: "stress-greedy", sinks: &[crate::stress::StressSink::Spy], judge_errors: false, framing_only: false, greedy_only: true });
    try_camp!(crate::stress::StressCampaign { name: "stress-framing", sinks: &[crate::stress::StressSink::Spy], judge_errors: false, framing_only: true, greedy_only: false });
    try_camp!(crate::queue::concurrent::PanicStorm { name: "queue-isolation-panic-storm", focus: QRule::Isolation });
    try_camp!(crate::queue::concurrent::PanicStorm { name: "queue-panic-storm", focus: QRule::Panics });
    try_camp!(crate::queue::concurrent::ChainedQueues { name: "queue-isolation-chained", focus: QRule::Isolation });
    try_camp!(crate::queue::concurrent::ChainedQueues { name: "queue-deliver-chained", focus: QRule::Deliver });
    try_camp!(crate::stress::StressCampaign { name: "stress-flush-markers", sinks: &[crate::stress::StressSink::Spy], judge_errors: false, framing_only: false, greedy_only: false });
    try_camp!(sockets::BlockedFlushCampaign { name: "unix-flush-behind-blocked-emit" });
    #[cfg(cadence_verif)]
    {
        try_camp!(crate::sched::SchedCampaign);
        try_camp!(crate::sched::ExhaustiveCampaign::new(2_000_000));
    }
    Err(format!("unknown campaign '{}'", campaign))
}
