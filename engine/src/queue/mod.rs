//! Queuing sink family: C08 (delivery), C09 (shutdown), C10 (isolation),
//! C11 (panics), C15 (counters), C16 (error handler). Sequential histories with
//! a harness-owned schedule (the gate), judged against a FIFO spec model.

pub mod concurrent;
pub mod gate;

use crate::driver::{Campaign, Ctx, Outcome, Tier};
use crate::util;
use cadence::{MetricSink, QueuingMetricSink};
use crossbeam_channel::{bounded, Receiver, RecvTimeoutError, Sender};
use gate::{Ev, Gate, GatedSink, StepOut};
use proptest::prelude::*;
use serde::{Deserialize, Serialize};
use std::collections::VecDeque;
use std::sync::Arc;
use std::thread::{self, ThreadId};
use std::time::Duration;

#[derive(Serialize, Deserialize, Clone, Debug, PartialEq, Eq, Hash)]
pub enum QOp {
    /// emit the next unique metric on the live handle selected (monotone map)
    Emit(u16),
    Clone(u16),
    Drop(u16),
    /// drop the handle while its thread is unwinding from a panic (caught by the caller)
    DropUnwinding(u16),
    /// let the wrapped sink finish the metric it holds, with this outcome
    Step(StepOut),
    /// flush() on a live handle; the outcome is what the wrapped sink would answer
    /// if it were (wrongly) invoked on the caller's thread during that call
    Flush(u16, StepOut),
    /// `format!("{:?}", handle)` on a live handle: an observer, must not change anything
    DebugFmt(u16),
}

#[derive(Serialize, Deserialize, Clone, Debug)]
pub struct QueueCase {
    /// None = unbounded
    pub cap: Option<usize>,
    /// configure an error handler on the queuing sink
    pub handler: bool,
    /// call with_error_handler before with_capacity on the builder (the order must not matter)
    #[serde(default)]
    pub handler_first: bool,
    /// without a handler: construct through QueuingMetricSink::from / ::with_capacity
    /// instead of the builder
    #[serde(default)]
    pub direct_ctor: bool,
    /// the wrapped sink's flush() returns an error (whoever calls it); emits are unaffected
    #[serde(default)]
    pub flush_fails: bool,
    pub ops: Vec<QOp>,
}

/// The public ways of wrapping a sink in a `QueuingMetricSink` with an unbounded (or
/// practically unbounded) queue; they must all behave alike. `variant` selects one.
pub fn build_queuing<S>(sink: S, variant: u64) -> cadence::QueuingMetricSink
where
    S: cadence::MetricSink + Sync + Send + std::panic::RefUnwindSafe + 'static,
{
    use cadence::QueuingMetricSink;
    match variant % 5 {
        0 => QueuingMetricSink::from(sink),
        1 => QueuingMetricSink::builder().build(sink),
        2 => QueuingMetricSink::builder().with_error_handler(|_e| {}).build(sink),
        3 => QueuingMetricSink::builder().with_capacity(1 << 20).with_error_handler(|_e| {}).build(sink),
        _ => QueuingMetricSink::with_capacity(sink, 1 << 20),
    }
}

pub const QUEUING_VARIANTS: [&str; 5] = [
    "QueuingMetricSink::from",
    "builder().build",
    "builder().with_error_handler().build",
    "builder().with_capacity().with_error_handler().build",
    "QueuingMetricSink::with_capacity",
];

#[derive(Clone, Copy, Debug, PartialEq, Eq, Hash)]
pub enum QRule {
    /// C08
    Deliver,
    /// C09
    Shutdown,
    /// C10
    Isolation,
    /// C11
    Panics,
    /// C15
    Counters,
    /// C16
    Handler,
    /// C20
    Panic,
}

#[derive(Clone, Debug)]
pub struct QFinding {
    pub rules: Vec<QRule>,
    pub op: usize,
    pub msg: String,
}

#[derive(Clone, Debug, Default)]
pub struct QStats {
    pub emits_ok: usize,
    pub emits_refused: usize,
    pub steps: usize,
    pub panics: usize,
    pub consecutive_panics: bool,
    pub panic_first_or_last: bool,
    pub panic_with_stop_pending: bool,
    pub errors: usize,
    pub errors_with_ok_between: bool,
    pub clones: usize,
    pub drop_then_other_emits: bool,
    pub alternating_handles: bool,
    pub final_drop_queued: usize,
    pub final_drop_full: bool,
    pub final_drop_inhand: bool,
    pub reached_full_then_accepted: bool,
    pub counters_checked: usize,
    pub handler_checked: usize,
}

// ---------------------------------------------------------------------------
// actor thread: performs every library call that could block

enum Cmd {
    Emit(usize, String),
    Clone(usize),
    Drop(usize),
    DropUnwinding(usize),
    Stats(usize),
    Flush(usize),
    DebugFmt(usize),
    Quit,
}

#[derive(Debug)]
enum Reply {
    Emit(Result<usize, String>),
    Cloned(usize),
    Done,
    Stats { submitted: u64, drained: u64, queued: u64, panics: u64 },
    Flushed(Result<(), String>),
    Panicked(String),
}

pub struct Actor {
    tx: Sender<Cmd>,
    rx: Receiver<Reply>,
    pub thread: ThreadId,
}

pub enum Wrapped {
    Gated,
}

impl Actor {
    /// spawn the actor; it builds the queuing sink around `make_sink()` itself
    pub fn spawn<S>(gate: Arc<Gate>, cap: Option<usize>, handler: bool, make_sink: impl FnOnce() -> S + Send + 'static) -> Actor
    where
        S: MetricSink + Sync + Send + std::panic::RefUnwindSafe + 'static,
    {
        Self::spawn_ordered(gate, cap, handler, false, make_sink)
    }

    pub fn spawn_ordered<S>(
        gate: Arc<Gate>,
        cap: Option<usize>,
        handler: bool,
        handler_first: bool,
        make_sink: impl FnOnce() -> S + Send + 'static,
    ) -> Actor
    where
        S: MetricSink + Sync + Send + std::panic::RefUnwindSafe + 'static,
    {
        Self::spawn_full(gate, cap, handler, handler_first, false, make_sink)
    }

    pub fn spawn_full<S>(
        gate: Arc<Gate>,
        cap: Option<usize>,
        handler: bool,
        handler_first: bool,
        direct_ctor: bool,
        make_sink: impl FnOnce() -> S + Send + 'static,
    ) -> Actor
    where
        S: MetricSink + Sync + Send + std::panic::RefUnwindSafe + 'static,
    {
        let (ctx, crx) = bounded::<Cmd>(4);
        let (rtx, rrx) = bounded::<Reply>(4);
        let (idtx, idrx) = bounded::<ThreadId>(1);
        let g2 = gate.clone();
        thread::Builder::new()
            .name("verif-actor".into())
            .spawn(move || {
                let me = thread::current().id();
                g2.register_producer(me);
                let _ = idtx.send(me);
                let built = util::catch(|| {
                    if direct_ctor && !handler {
                        return match cap {
                            None => QueuingMetricSink::from(make_sink()),
                            Some(c) => QueuingMetricSink::with_capacity(make_sink(), c),
                        };
                    }
                    let mut b = QueuingMetricSink::builder();
                    if handler && handler_first {
                        let hg = HandlerGate(g2.clone());
                        b = b.with_error_handler(move |e| hg.0.log_handler(&e));
                    }
                    if let Some(c) = cap {
                        b = b.with_capacity(c);
                    }
                    if handler && !handler_first {
                        let hg = HandlerGate(g2.clone());
                        b = b.with_error_handler(move |e| hg.0.log_handler(&e));
                    }
                    b.build(make_sink())
                });
                let first = match built {
                    Ok(q) => q,
                    Err(p) => {
                        let _ = rtx.send(Reply::Panicked(format!("constructor: {}", p)));
                        return;
                    }
                };
                let _ = rtx.send(Reply::Done);
                let mut handles: Vec<Option<QueuingMetricSink>> = vec![Some(first)];
                while let Ok(cmd) = crx.recv() {
                    let reply = match cmd {
                        Cmd::Emit(h, m) => match util::catch(|| {
                            gate::IN_CALLER_EMIT.with(|f| f.set(true));
                            let r = handles[h].as_ref().unwrap().emit(&m);
                            gate::IN_CALLER_EMIT.with(|f| f.set(false));
                            r
                        }) {
                            Ok(Ok(n)) => Reply::Emit(Ok(n)),
                            Ok(Err(e)) => Reply::Emit(Err(format!("{:?}/{}", e.kind(), e))),
                            Err(p) => Reply::Panicked(p),
                        },
                        Cmd::DebugFmt(h) => match util::catch(|| format!("{:?}", handles[h].as_ref().unwrap()).len()) {
                            Ok(_) => Reply::Done,
                            Err(p) => Reply::Panicked(p),
                        },
                        Cmd::Clone(h) => match util::catch(|| handles[h].as_ref().unwrap().clone()) {
                            Ok(c) => {
                                handles.push(Some(c));
                                Reply::Cloned(handles.len() - 1)
                            }
                            Err(p) => Reply::Panicked(p),
                        },
                        Cmd::Drop(h) => {
                            let q = handles[h].take();
                            match util::catch(move || drop(q)) {
                                Ok(()) => Reply::Done,
                                Err(p) => Reply::Panicked(p),
                            }
                        }
                        Cmd::DropUnwinding(h) => {
                            let q = handles[h].take();
                            // the handle is dropped by the unwinding of this (harness) panic
                            let r = util::catch(move || {
                                let _held = q;
                                panic!("{} (dropping a handle while unwinding)", util::HARNESS_PANIC);
                            });
                            match r {
                                Err(p) if p.contains(util::HARNESS_PANIC) => Reply::Done,
                                Err(p) => Reply::Panicked(p),
                                Ok(()) => Reply::Done,
                            }
                        }
                        Cmd::Stats(h) => match util::catch(|| {
                            let q = handles[h].as_ref().unwrap();
                            // queued first, then the monotone counters
                            let queued = q.queued();
                            // read-only accessors must have no side effects on the queue
                            let _ = q.stats();
                            let _ = format!("{:?}", q);
                            (q.submitted(), q.drained(), queued, q.panics())
                        }) {
                            Ok((submitted, drained, queued, panics)) => Reply::Stats {
                                submitted,
                                drained,
                                queued,
                                panics,
                            },
                            Err(p) => Reply::Panicked(p),
                        },
                        Cmd::Flush(h) => match util::catch(|| handles[h].as_ref().unwrap().flush()) {
                            Ok(r) => Reply::Flushed(r.map_err(|e| e.to_string())),
                            Err(p) => Reply::Panicked(p),
                        },
                        Cmd::Quit => break,
                    };
                    if rtx.send(reply).is_err() {
                        break;
                    }
                }
                // remaining handles are dropped here
            })
            .expect("spawn actor");
        let thread = idrx.recv().expect("actor id");
        Actor { tx: ctx, rx: rrx, thread }
    }

    fn call(&self, cmd: Cmd, w: Duration) -> Result<Reply, String> {
        self.tx.send(cmd).map_err(|_| "actor gone".to_string())?;
        match self.rx.recv_timeout(w) {
            Ok(r) => Ok(r),
            Err(RecvTimeoutError::Timeout) => Err("timeout".into()),
            Err(RecvTimeoutError::Disconnected) => Err("actor gone".into()),
        }
    }
}

struct HandlerGate(Arc<Gate>);
impl std::panic::RefUnwindSafe for HandlerGate {}

// ---------------------------------------------------------------------------
// interpreter + spec model

pub struct Run {
    pub findings: Vec<QFinding>,
    pub stats: QStats,
}

fn metric_name(i: usize) -> String {
    // lengths vary so that Ok(len) is checked meaningfully; now and then the empty
    // string (a legal &str for MetricSink::emit)
    if i % 11 == 5 {
        return String::new();
    }
    // strings with line feeds are legal arguments of MetricSink::emit too: one emit, one hand-over
    match i % 13 {
        7 => return format!("m{}.a:1|c\nm{}.b:2|c", i, i),
        9 => return format!("m{}.t:1|c\n", i),
        11 if i % 3 == 0 => return "\n".to_string(),
        _ => {}
    }
    format!("m{}.{}:1|c", i, "x".repeat(i % 7))
}

pub fn run_case(case: &QueueCase, ctx: &Ctx) -> Run {
    run_case_focus(case, ctx, None)
}

/// `focus`: the rule the calling campaign decides. Liveness waits that can only
/// produce findings for *other* rules use a short bound, so that a defect outside
/// the focus does not make every case wait W several times (a late event then
/// merely yields a finding the campaign ignores).
/// liveness timeouts that only concern rules outside the calling campaign's focus
pub static NONFOCUS_TIMEOUTS: std::sync::atomic::AtomicU64 = std::sync::atomic::AtomicU64::new(0);

pub fn run_case_focus(case: &QueueCase, ctx: &Ctx, focus: Option<QRule>) -> Run {
    let w = ctx.w();
    let w_for = |rule: QRule| -> Duration {
        match focus {
            Some(f) if f != rule => w.min(Duration::from_millis(150)),
            _ => w,
        }
    };
    let gate = Gate::new();
    let mut findings: Vec<QFinding> = Vec::new();
    let mut st = QStats::default();
    macro_rules! find {
        ($rules:expr, $op:expr, $($arg:tt)*) => {
            findings.push(QFinding { rules: $rules.to_vec(), op: $op, msg: format!($($arg)*) })
        };
    }
    gate.lock().flush_fails = case.flush_fails;
    let g2 = gate.clone();
    let actor = Actor::spawn_full(gate.clone(), case.cap, case.handler, case.handler_first, case.direct_ctor, move || GatedSink { gate: g2 });
    match actor.rx.recv_timeout(w) {
        Ok(Reply::Done) => {}
        Ok(Reply::Panicked(p)) => {
            find!([QRule::Panic, QRule::Deliver, QRule::Shutdown, QRule::Isolation], 0, "constructing the queuing sink panicked: {}", p);
            return Run { findings, stats: st };
        }
        other => {
            find!([QRule::Isolation, QRule::Deliver], 0, "constructing the queuing sink did not return: {:?}", other);
            return Run { findings, stats: st };
        }
    }

    // model
    let mut live: Vec<usize> = vec![0];
    let mut queue: VecDeque<String> = VecDeque::new();
    let mut inhand: Option<String> = None;
    let mut entered = 0usize; // Enter events consumed by the model
    let mut exited = 0usize;
    let mut accepted = 0usize;
    let mut next_metric = 0usize;
    let mut panics_expected = 0u64;
    let mut handler_expected = 0usize;
    let mut any_panic = false;
    let mut last_step_panic = false;
    let mut last_err_then_ok = 0u8; // 0 none, 1 err seen, 2 err then ok
    let mut final_dropped = false;
    let mut was_full = false;
    let mut last_emit_handle: Option<usize> = None;
    let mut dropped_some = false;
    let mut worker_threads: Vec<ThreadId> = Vec::new();
    let mut fatal = false;

    // rules attached to a delivery failure, depending on the history so far
    let deliver_rules = |any_panic: bool, final_dropped: bool| -> Vec<QRule> {
        let mut r = vec![QRule::Deliver];
        if any_panic {
            r.push(QRule::Panics);
        }
        if final_dropped {
            r.push(QRule::Shutdown);
        }
        r
    };

    // wait for the worker to pick up the next metric, if the model says one is due
    // C15 when the delivery model is already broken: drained() must still equal the number of
    // times the wrapped sink was actually invoked
    macro_rules! probe_drained {
        ($oi:expr) => {{
            if let Some(&h) = live.first() {
                // (the worker counts a metric just before it calls the wrapped sink: give it a moment)
                let mut last = None;
                for _ in 0..20 {
                    if let Ok(Reply::Stats { drained, .. }) = actor.call(Cmd::Stats(h), w) {
                        let handed = gate.lock().entered as u64;
                        if drained == handed {
                            last = None;
                            break;
                        }
                        last = Some((drained, handed));
                    }
                    std::thread::sleep(Duration::from_millis(5));
                }
                if let Some((drained, handed)) = last {
                    find!(
                        [QRule::Counters],
                        $oi,
                        "drained() = {} but the wrapped sink was invoked {} times",
                        drained,
                        handed
                    );
                }
            }
        }};
    }

    macro_rules! settle {
        ($oi:expr) => {{
            if inhand.is_none() && !queue.is_empty() {
                let want = entered + 1;
                if !gate.wait_until(w, |g| g.entered >= want) {
                    if let Some(f) = focus {
                        if !deliver_rules(any_panic, final_dropped).contains(&f) {
                            NONFOCUS_TIMEOUTS.fetch_add(1, std::sync::atomic::Ordering::Relaxed);
                        }
                    }
                    find!(
                        deliver_rules(any_panic, final_dropped),
                        $oi,
                        "metric '{}' was accepted (emit returned Ok) but was not handed to the wrapped sink within {:?} although the wrapped sink is idle",
                        queue.front().unwrap(),
                        w
                    );
                    fatal = true;
                } else {
                    let g = gate.lock();
                    let ev = g.log.iter().filter_map(|e| match e {
                        Ev::Enter { seq, metric, thread, on_producer } if *seq == entered => Some((metric.clone(), *thread, *on_producer)),
                        _ => None,
                    }).next();
                    drop(g);
                    if let Some((metric, thread, on_producer)) = ev {
                        let head = queue.pop_front().unwrap();
                        if metric != head {
                            find!(
                                deliver_rules(any_panic, final_dropped),
                                $oi,
                                "wrapped sink was handed '{}' but the oldest accepted, undelivered metric is '{}' (order / exactly-once violated)",
                                metric,
                                head
                            );
                            probe_drained!($oi);
                            fatal = true;
                        }
                        if on_producer || thread == actor.thread {
                            find!([QRule::Isolation], $oi, "wrapped sink ran on the caller's thread for '{}'", metric);
                            fatal = true;
                        } else if !worker_threads.contains(&thread) {
                            worker_threads.push(thread);
                        }
                        entered += 1;
                        inhand = Some(head);
                    }
                }
            }
            // nothing may be entered beyond what the model handed over
            if !fatal {
                let g = gate.lock();
                if g.entered > entered {
                    let extra: Vec<String> = g.log.iter().filter_map(|e| match e {
                        Ev::Enter { seq, metric, .. } if *seq >= entered => Some(metric.clone()),
                        _ => None,
                    }).collect();
                    drop(g);
                    find!(
                        deliver_rules(any_panic, final_dropped),
                        $oi,
                        "wrapped sink was invoked with {:?} although the model has nothing (more) due: duplicate or invented delivery",
                        extra
                    );
                    probe_drained!($oi);
                    fatal = true;
                }
            }
        }};
    }

    macro_rules! check_counters {
        ($oi:expr) => {{
            if !fatal {
                if let Some(&h) = live.first() {
                    match actor.call(Cmd::Stats(h), w) {
                        Ok(Reply::Stats { submitted, drained, queued, panics }) => {
                            st.counters_checked += 1;
                            if submitted != accepted as u64 {
                                find!([QRule::Counters], $oi, "submitted() = {} but {} emits returned Ok", submitted, accepted);
                            }
                            if drained != entered as u64 {
                                find!([QRule::Counters], $oi, "drained() = {} but {} metrics were handed to the wrapped sink", drained, entered);
                            }
                            if queued != (accepted - entered) as u64 {
                                find!([QRule::Counters], $oi, "queued() = {} but submitted - drained = {}", queued, accepted - entered);
                            }
                            if panics > panics_expected {
                                find!([QRule::Panics], $oi, "panics() = {} but only {} panics occurred", panics, panics_expected);
                            }
                        }
                        Ok(Reply::Panicked(p)) => find!([QRule::Panic, QRule::Counters], $oi, "reading the counters panicked: {}", p),
                        other => find!([QRule::Counters, QRule::Isolation], $oi, "reading the counters did not return: {:?}", other),
                    }
                }
            }
        }};
    }

    // panics() must reach the number of injected panics
    macro_rules! wait_panics {
        ($oi:expr) => {{
            if !fatal {
                if let Some(&h) = live.first() {
                    let deadline = std::time::Instant::now() + w_for(QRule::Panics);
                    loop {
                        match actor.call(Cmd::Stats(h), w) {
                            Ok(Reply::Stats { panics, .. }) => {
                                if panics == panics_expected {
                                    break;
                                }
                                if panics > panics_expected || std::time::Instant::now() >= deadline {
                                    find!([QRule::Panics], $oi, "panics() = {} but {} panics occurred in the wrapped sink", panics, panics_expected);
                                    break;
                                }
                                thread::sleep(Duration::from_micros(50));
                            }
                            other => {
                                find!([QRule::Panics], $oi, "reading panics() failed: {:?}", other);
                                break;
                            }
                        }
                    }
                }
            }
        }};
    }

    let do_step = |out: StepOut| gate.permit(out);

    let n_ops = case.ops.len();
    let mut oi = 0usize;
    // ops, then the implicit ending: drop every live handle, release all steps
    let mut pending_tail: VecDeque<QOp> = VecDeque::new();
    loop {
        if fatal {
            break;
        }
        let op = if oi < n_ops {
            case.ops[oi].clone()
        } else if let Some(op) = pending_tail.pop_front() {
            op
        } else if !live.is_empty() {
            QOp::Drop(0)
        } else if inhand.is_some() {
            QOp::Step(StepOut::Ok)
        } else {
            break;
        };
        match op.clone() {
            QOp::Emit(sel) => {
                if !live.is_empty() {
                    let li = util::pick_idx(sel, live.len());
                    let h = live[li];
                    let m = metric_name(next_metric);
                    next_metric += 1;
                    // Some(true/false): the model knows; None: a zero-capacity (rendezvous) queue whose
                    // worker holds nothing - whether it is already parked in recv() is a matter of timing,
                    // both results are right
                    let room_known: Option<bool> = match case.cap {
                        None => Some(true),
                        Some(0) => {
                            if inhand.is_some() || !queue.is_empty() {
                                Some(false)
                            } else {
                                None
                            }
                        }
                        Some(c) => Some(queue.len() < c),
                    };
                    if room_known == Some(false) {
                        was_full = true;
                    }
                    // if the wrapped sink is (wrongly) run inside this emit it answers with an error: a
                    // configured handler must then still not run on the caller's thread (C16)
                    let handler_events_before = gate.lock().handled;
                    if case.handler {
                        gate.lock().caller_outcome = Some(StepOut::Err(7));
                    }
                    let emit_reply = actor.call(Cmd::Emit(h, m.clone()), w);
                    gate.lock().caller_outcome = None;
                    {
                        let g = gate.lock();
                        if g.handled > handler_events_before {
                            let on_caller = g.log.iter().rev().find_map(|e| match e {
                                Ev::Handler { thread, .. } => Some(*thread == actor.thread),
                                _ => None,
                            });
                            if on_caller == Some(true) {
                                drop(g);
                                find!(
                                    [QRule::Handler, QRule::Isolation],
                                    oi,
                                    "the error handler ran on the emitting thread during emit('{}') (the wrapped sink was run inline and failed)",
                                    m
                                );
                                fatal = true;
                            }
                        }
                    }
                    match emit_reply {
                        Ok(Reply::Emit(Ok(n))) => {
                            if n != m.len() {
                                find!([QRule::Isolation], oi, "emit of a {}-byte metric returned Ok({})", m.len(), n);
                            }
                            let room = room_known != Some(false);
                            if !room {
                                find!(
                                    [QRule::Isolation],
                                    oi,
                                    "emit returned Ok although the bounded queue (capacity {:?}) already holds {} metrics{}",
                                    case.cap,
                                    queue.len(),
                                    if inhand.is_some() { " and the worker is busy with another one" } else { "" }
                                );
                                // whatever happened to that metric, an Ok emit must be counted as submitted
                                accepted += 1;
                                check_counters!(oi);
                                accepted -= 1;
                                fatal = true;
                            }
                            if was_full && room {
                                st.reached_full_then_accepted = true;
                            }
                            accepted += 1;
                            st.emits_ok += 1;
                            if dropped_some {
                                st.drop_then_other_emits = true;
                            }
                            if let Some(prev) = last_emit_handle {
                                if prev != h {
                                    st.alternating_handles = true;
                                }
                            }
                            last_emit_handle = Some(h);
                            queue.push_back(m);
                        }
                        Ok(Reply::Emit(Err(e))) => {
                            st.emits_refused += 1;
                            if room_known == Some(true) {
                                let mut rules = vec![QRule::Isolation, QRule::Deliver];
                                if any_panic {
                                    // "... and the sink keeps accepting metrics" (C11)
                                    rules.push(QRule::Panics);
                                }
                                if st.errors > 0 && !case.handler {
                                    // "without a handler the error is discarded and later metrics are delivered as usual" (C16)
                                    rules.push(QRule::Handler);
                                }
                                find!(
                                    rules,
                                    oi,
                                    "emit returned Err({}) although the queue (capacity {:?}) holds only {} metrics",
                                    e,
                                    case.cap,
                                    queue.len()
                                );
                            } else if room_known.is_none() && any_panic {
                                // zero-capacity queue, nothing in flight, after a panic: the (replaced) worker must
                                // get back to waiting for the next entry, so an emit succeeds eventually
                                // ("... and the sink keeps accepting metrics", C11)
                                let deadline = std::time::Instant::now() + w;
                                let mut taken = false;
                                while std::time::Instant::now() < deadline {
                                    std::thread::sleep(Duration::from_millis(2));
                                    match actor.call(Cmd::Emit(h, m.clone()), w) {
                                        Ok(Reply::Emit(Ok(_))) => {
                                            taken = true;
                                            break;
                                        }
                                        Ok(Reply::Emit(Err(_))) => {
                                            st.emits_refused += 1;
                                        }
                                        _ => break,
                                    }
                                }
                                if taken {
                                    accepted += 1;
                                    st.emits_ok += 1;
                                    queue.push_back(m);
                                } else {
                                    find!(
                                        [QRule::Panics],
                                        oi,
                                        "after a panic of the wrapped sink a zero-capacity queuing sink with nothing in flight refused every emit for {:?}: the sink no longer accepts metrics",
                                        w
                                    );
                                    fatal = true;
                                }
                            }
                        }
                        Ok(Reply::Panicked(p)) => {
                            find!([QRule::Isolation, QRule::Panic], oi, "emit panicked in the caller: {}", p);
                            fatal = true;
                        }
                        Err(e) if e == "timeout" => {
                            find!(
                                [QRule::Isolation],
                                oi,
                                "emit did not return within {:?} while the wrapped sink is held blocked (queue holds {} of {:?})",
                                w,
                                queue.len(),
                                case.cap
                            );
                            fatal = true;
                        }
                        other => {
                            find!([QRule::Isolation], oi, "emit: unexpected {:?}", other);
                            fatal = true;
                        }
                    }
                    {
                        let n = gate.lock().stats_in_emit;
                        if n > 0 && !fatal {
                            find!(
                                [QRule::Isolation],
                                oi,
                                "emit called into the wrapped sink (stats()) on the caller's thread {} time(s): emit must never run the wrapped sink on the caller's thread",
                                n
                            );
                            fatal = true;
                        }
                    }
                    settle!(oi);
                    check_counters!(oi);
                }
            }
            QOp::Clone(sel) => {
                if !live.is_empty() {
                    let h = live[util::pick_idx(sel, live.len())];
                    match actor.call(Cmd::Clone(h), w) {
                        Ok(Reply::Cloned(n)) => {
                            live.push(n);
                            st.clones += 1;
                        }
                        other => {
                            find!([QRule::Panic, QRule::Deliver], oi, "clone failed: {:?}", other);
                            fatal = true;
                        }
                    }
                    settle!(oi);
                    check_counters!(oi);
                }
            }
            QOp::DebugFmt(sel) => {
                if !live.is_empty() {
                    let h = live[util::pick_idx(sel, live.len())];
                    match actor.call(Cmd::DebugFmt(h), w) {
                        Ok(Reply::Done) => {}
                        Ok(Reply::Panicked(p)) => {
                            find!([QRule::Panic], oi, "Debug-formatting a handle panicked: {}", p);
                            fatal = true;
                        }
                        other => {
                            find!([QRule::Isolation], oi, "Debug-formatting a handle did not return: {:?}", other);
                            fatal = true;
                        }
                    }
                    settle!(oi);
                    check_counters!(oi);
                }
            }
            QOp::Drop(sel) | QOp::DropUnwinding(sel) => {
                let unwinding = matches!(op, QOp::DropUnwinding(_));
                if !live.is_empty() {
                    let li = util::pick_idx(sel, live.len());
                    let h = live.remove(li);
                    let last = live.is_empty();
                    if last {
                        st.final_drop_queued = queue.len();
                        st.final_drop_inhand = inhand.is_some();
                        st.final_drop_full = case.cap.map_or(false, |c| queue.len() >= c);
                    }
                    match actor.call(if unwinding { Cmd::DropUnwinding(h) } else { Cmd::Drop(h) }, w) {
                        Ok(Reply::Done) => {}
                        Ok(Reply::Panicked(p)) => {
                            find!([QRule::Shutdown, QRule::Panic], oi, "dropping a handle panicked: {}", p);
                            fatal = true;
                        }
                        Err(e) if e == "timeout" => {
                            find!(
                                [QRule::Shutdown],
                                oi,
                                "drop(handle) did not return within {:?} while the wrapped sink is held blocked ({} queued, capacity {:?})",
                                w,
                                queue.len(),
                                case.cap
                            );
                            fatal = true;
                        }
                        other => {
                            find!([QRule::Shutdown], oi, "drop: unexpected {:?}", other);
                            fatal = true;
                        }
                    }
                    dropped_some = true;
                    if last {
                        final_dropped = true;
                    }
                    settle!(oi);
                    check_counters!(oi);
                }
            }
            QOp::Flush(sel, caller_out) => {
                if !live.is_empty() {
                    let h = live[util::pick_idx(sel, live.len())];
                    let before = gate.lock().entered;
                    gate.lock().caller_outcome = Some(caller_out);
                    let r = actor.call(Cmd::Flush(h), w);
                    gate.lock().caller_outcome = None;
                    match r {
                        Ok(Reply::Flushed(_)) => {}
                        Ok(Reply::Panicked(p)) => {
                            find!([QRule::Isolation, QRule::Panics, QRule::Panic], oi, "flush panicked in the caller (a panic of the wrapped sink unwound into a caller thread and is not counted by panics()): {}", p);
                            fatal = true;
                        }
                        Err(e) if e == "timeout" => {
                            find!([QRule::Isolation], oi, "flush did not return within {:?} while the wrapped sink is held blocked", w);
                            fatal = true;
                        }
                        other => {
                            find!([QRule::Isolation], oi, "flush: unexpected {:?}", other);
                            fatal = true;
                        }
                    }
                    // the wrapped sink's emit must not have been run by the flush (on the caller's thread)
                    let g = gate.lock();
                    let ran: Vec<(usize, String, bool)> = g
                        .log
                        .iter()
                        .filter_map(|e| match e {
                            Ev::Enter { seq, metric, on_producer, .. } if *seq >= before && *seq >= entered => Some((*seq, metric.clone(), *on_producer)),
                            _ => None,
                        })
                        .collect();
                    let handler_tokens: Vec<Option<u64>> = g
                        .log
                        .iter()
                        .filter_map(|e| match e {
                            Ev::Handler { token, .. } => Some(*token),
                            _ => None,
                        })
                        .collect();
                    drop(g);
                    if let Some((seq, metric, on_prod)) = ran.first().cloned() {
                        if on_prod {
                            find!(
                                [QRule::Isolation, QRule::Deliver],
                                oi,
                                "flush() ran the wrapped sink's emit for queued metric '{}' on the caller's thread (while the worker holds another metric: hand-over is neither one at a time nor on the background thread)",
                                metric
                            );
                            // whatever was handed to the wrapped sink must be counted as drained
                            if let Ok(Reply::Stats { drained, .. }) = actor.call(Cmd::Stats(h), w) {
                                let handed = gate.lock().entered as u64;
                                if drained != handed {
                                    find!(
                                        [QRule::Counters],
                                        oi,
                                        "drained() = {} but {} metrics were handed to the wrapped sink (some of them inside flush())",
                                        drained,
                                        handed
                                    );
                                }
                            }
                            if let (StepOut::Err(_), true) = (caller_out, case.handler) {
                                if !handler_tokens.contains(&Some(seq as u64)) {
                                    find!(
                                        [QRule::Handler],
                                        oi,
                                        "the wrapped sink returned an error for queued metric '{}' (processed inside flush()) but the configured error handler was not invoked with it",
                                        metric
                                    );
                                }
                            }
                            fatal = true;
                        }
                    }
                    if !fatal {
                        settle!(oi);
                        check_counters!(oi);
                        // a failing flush() of the wrapped sink is the caller's result, never a queued metric's error
                        let handled = gate.lock().handled;
                        if handled > handler_expected {
                            find!(
                                [QRule::Handler],
                                oi,
                                "error handler invoked {} times but the wrapped sink returned an error for {} queued metrics (the wrapped sink's flush() fails in this history: that error is not a queued metric's)",
                                handled,
                                handler_expected
                            );
                        }
                    }
                }
            }
            QOp::Step(out) => {
                if let Some(m) = inhand.clone() {
                    st.steps += 1;
                    do_step(out);
                    let want = exited + 1;
                    if !gate.wait_until(w, |g| g.exited >= want) {
                        find!([QRule::Deliver], oi, "harness: wrapped sink did not take its permit for '{}'", m);
                        fatal = true;
                    }
                    exited += 1;
                    inhand = None;
                    match out {
                        StepOut::Panic => {
                            panics_expected += 1;
                            st.panics += 1;
                            if last_step_panic {
                                st.consecutive_panics = true;
                            }
                            if entered == 1 || queue.is_empty() {
                                st.panic_first_or_last = true;
                            }
                            if final_dropped {
                                st.panic_with_stop_pending = true;
                            }
                            any_panic = true;
                            last_step_panic = true;
                        }
                        StepOut::Err(k) => {
                            st.errors += 1;
                            last_step_panic = false;
                            if last_err_then_ok == 2 {
                                st.errors_with_ok_between = true;
                            }
                            last_err_then_ok = 1;
                            if case.handler {
                                handler_expected += 1;
                                let want = handler_expected;
                                if !gate.wait_until(w_for(QRule::Handler), |g| g.handled >= want) {
                                    find!(
                                        [QRule::Handler],
                                        oi,
                                        "wrapped sink returned an error for '{}' but the configured error handler was not invoked within {:?}",
                                        m,
                                        w
                                    );
                                } else {
                                    st.handler_checked += 1;
                                    // payload, thread and position
                                    let g = gate.lock();
                                    let seq = entered - 1;
                                    let enter_thread = g.log.iter().find_map(|e| match e {
                                        Ev::Enter { seq: s, thread, .. } if *s == seq => Some(*thread),
                                        _ => None,
                                    });
                                    let exit_pos = g.log.iter().position(|e| matches!(e, Ev::Exit { seq: s, .. } if *s == seq));
                                    let handlers: Vec<(usize, std::io::ErrorKind, Option<u64>, ThreadId)> = g
                                        .log
                                        .iter()
                                        .enumerate()
                                        .filter_map(|(i, e)| match e {
                                            Ev::Handler { kind, token, thread } => Some((i, *kind, *token, *thread)),
                                            _ => None,
                                        })
                                        .collect();
                                    let next_enter_pos = g.log.iter().position(|e| matches!(e, Ev::Enter { seq: s, .. } if *s == seq + 1));
                                    drop(g);
                                    let (pos, kind, token, th) = handlers[want - 1];
                                    if kind != util::io_kind(k) || token != Some(seq as u64) {
                                        find!(
                                            [QRule::Handler],
                                            oi,
                                            "handler received {:?}/token {:?} but the wrapped sink's error for '{}' was {:?}/token {}",
                                            kind,
                                            token,
                                            m,
                                            util::io_kind(k),
                                            seq
                                        );
                                    }
                                    if Some(th) != enter_thread || th == actor.thread {
                                        find!([QRule::Handler], oi, "handler ran on {:?}, the wrapped sink on {:?}", th, enter_thread);
                                    }
                                    if exit_pos.map_or(true, |e| pos < e) || next_enter_pos.map_or(false, |n| pos > n) {
                                        find!([QRule::Handler], oi, "handler call for '{}' is not between that metric and the next one in the event log", m);
                                    }
                                }
                            }
                        }
                        StepOut::Ok | StepOut::OkZero | StepOut::OkShort => {
                            last_step_panic = false;
                            if last_err_then_ok == 1 {
                                last_err_then_ok = 2;
                            }
                        }
                    }
                    settle!(oi);
                    if out == StepOut::Panic {
                        wait_panics!(oi);
                    }
                    // handler must not have been called more often than errors occurred
                    if !fatal {
                        let handled = gate.lock().handled;
                        if handled > handler_expected {
                            find!(
                                [QRule::Handler],
                                oi,
                                "error handler invoked {} times but the wrapped sink failed {} times",
                                handled,
                                handler_expected
                            );
                        }
                    }
                    check_counters!(oi);
                }
            }
        }
        oi += 1;
    }

    // ending: after the last handle is gone and everything is stepped, the
    // wrapped sink must be released
    if !fatal {
        if !live.is_empty() || inhand.is_some() || !queue.is_empty() {
            find!([QRule::Deliver], oi, "harness: ending reached with work left (live {:?}, inhand {:?}, queue {})", live, inhand, queue.len());
        } else {
            // stop the actor first: it holds no handle any more
            let _ = actor.tx.send(Cmd::Quit);
            if !gate.wait_until(w_for(QRule::Shutdown), |g| g.released) {
                find!(
                    [QRule::Shutdown],
                    oi,
                    "[sig=last-drop/wrapped-sink-not-released] all handles dropped and every accepted metric handed over, but the wrapped sink was not dropped within {:?} (final drop with {} queued, capacity {:?}, worker holding a metric: {})",
                    w,
                    st.final_drop_queued,
                    case.cap,
                    st.final_drop_inhand
                );
            } else {
                let g = gate.lock();
                let rel = g.log.iter().position(|e| matches!(e, Ev::Released));
                let late = g.log.iter().enumerate().any(|(i, e)| matches!(e, Ev::Enter { .. }) && Some(i) > rel);
                let total_entered = g.entered;
                let handled = g.handled;
                drop(g);
                if late {
                    find!([QRule::Shutdown], oi, "wrapped sink was used after it was released");
                }
                if total_entered != accepted {
                    find!(
                        deliver_rules(any_panic, true),
                        oi,
                        "{} emits returned Ok but the wrapped sink was invoked {} times",
                        accepted,
                        total_entered
                    );
                }
                if handled != handler_expected {
                    find!([QRule::Handler], oi, "handler invoked {} times for {} wrapped-sink errors", handled, handler_expected);
                }
            }
        }
    } else {
        // unblock whatever is still waiting in the gate so threads can finish
        gate.set_open(Some(StepOut::Ok));
        let _ = actor.tx.send(Cmd::Quit);
    }
    if let Some(f) = findings.iter().position(|f| f.rules.contains(&QRule::Panic)) {
        let _ = f;
    }
    Run { findings, stats: st }
}

// ---------------------------------------------------------------------------
// strategies

fn step_out(err_w: u32, panic_w: u32) -> impl Strategy<Value = StepOut> {
    prop_oneof![
        4 => Just(StepOut::Ok),
        1 => Just(StepOut::OkZero),
        1 => Just(StepOut::OkShort),
        err_w => (0u8..13).prop_map(StepOut::Err),
        panic_w => Just(StepOut::Panic),
    ]
}

pub fn cap_strategy() -> impl Strategy<Value = Option<usize>> {
    prop_oneof![
        3 => Just(None),
        1 => Just(Some(0usize)),
        2 => Just(Some(1usize)),
        2 => Just(Some(2usize)),
        2 => Just(Some(3usize)),
        1 => Just(Some(5usize)),
        1 => Just(Some(8usize)),
        1 => Just(Some(16usize)),
    ]
}

#[derive(Clone, Copy, Debug)]
pub struct QGen {
    pub flush_w: u32,
    pub max_ops: usize,
    pub emit_w: u32,
    pub clone_w: u32,
    pub drop_w: u32,
    pub step_w: u32,
    pub err_w: u32,
    pub panic_w: u32,
    pub handler_p: f64,
}

pub fn queue_case(g: QGen) -> BoxedStrategy<QueueCase> {
    let op = prop_oneof![
        g.emit_w => any::<u16>().prop_map(QOp::Emit),
        g.clone_w => any::<u16>().prop_map(QOp::Clone),
        g.drop_w => prop_oneof![4 => any::<u16>().prop_map(QOp::Drop), 1 => any::<u16>().prop_map(QOp::DropUnwinding)],
        g.step_w => step_out(g.err_w, g.panic_w).prop_map(QOp::Step),
        1 => any::<u16>().prop_map(QOp::DebugFmt),
        g.flush_w => (any::<u16>(), prop_oneof![3 => Just(StepOut::Ok), 3 => (0u8..13).prop_map(StepOut::Err), 2 => Just(StepOut::Panic)]).prop_map(|(h, o)| QOp::Flush(h, o)),
    ];
    (cap_strategy(), prop::bool::weighted(g.handler_p), any::<bool>(), any::<bool>(), prop::collection::vec(op, 0..=g.max_ops))
        .prop_map(|(cap, handler, handler_first, flush_fails, ops)| QueueCase {
            cap,
            handler,
            handler_first,
            direct_ctor: !handler && handler_first,
            flush_fails,
            ops,
        })
        .boxed()
}

/// endings for C09: fill the queue to a chosen occupancy, drop the last
/// handle, then a pattern of outcomes
pub fn ending_case() -> BoxedStrategy<QueueCase> {
    (cap_strategy(), 0usize..4, any::<bool>(), prop::collection::vec(step_out(2, 2), 0..12), 0usize..3, any::<bool>())
        .prop_flat_map(|(cap, pre_steps, clone_first, outs, under, handler)| {
            let c = cap.unwrap_or(6);
            // occupancy at the final drop: cap - under (clamped), plus one in the worker's hand
            let occ = c.saturating_sub(under);
            let mut ops: Vec<QOp> = Vec::new();
            if clone_first {
                ops.push(QOp::Clone(0));
            }
            for i in 0..(occ + 1 + pre_steps) {
                ops.push(QOp::Emit((i as u16).wrapping_mul(9973)));
            }
            for _ in 0..pre_steps {
                ops.push(QOp::Step(StepOut::Ok));
            }
            // refill what the pre-steps freed
            for i in 0..pre_steps {
                ops.push(QOp::Emit(i as u16));
            }
            if clone_first {
                ops.push(QOp::Drop(0));
            }
            ops.push(if under == 2 && pre_steps == 1 { QOp::DropUnwinding(0) } else { QOp::Drop(0) });
            for o in outs {
                ops.push(QOp::Step(o));
            }
            Just(QueueCase { cap, handler, handler_first: under == 1, direct_ctor: !handler && under == 2, flush_fails: handler && pre_steps % 2 == 0, ops })
        })
        .boxed()
}

/// exhaustive small space for C09/C11: capacity ≤ 3 × occupancy × outcomes^k
pub fn ending_enumeration(max_cap: usize, outcomes: &[StepOut]) -> Vec<QueueCase> {
    let mut out = Vec::new();
    let caps: Vec<Option<usize>> = (1..=max_cap).map(Some).chain(std::iter::once(None)).collect();
    for cap in caps {
        let c = cap.unwrap_or(max_cap);
        for occ in 0..=c {
            for inhand in [false, true] {
                let total = occ + inhand as usize;
                if !inhand && occ > 0 {
                    // without a metric in the worker's hand the queue drains at once:
                    // occupancy > 0 is only reachable with the gate holding one
                    continue;
                }
                // all outcome patterns for the `total` remaining metrics
                let n = outcomes.len();
                let mut idx = vec![0usize; total];
                loop {
                    let mut ops = Vec::new();
                    for i in 0..total {
                        ops.push(QOp::Emit(i as u16));
                    }
                    ops.push(QOp::Drop(0));
                    for i in 0..total {
                        ops.push(QOp::Step(outcomes[idx[i]]));
                    }
                    for handler in [false, true] {
                        out.push(QueueCase {
                            cap,
                            handler,
                            handler_first: false,
                            direct_ctor: !handler && occ % 2 == 1,
                            flush_fails: handler,
                            ops: ops.clone(),
                        });
                    }
                    // next pattern
                    let mut k = 0;
                    loop {
                        if k == total {
                            break;
                        }
                        idx[k] += 1;
                        if idx[k] < n {
                            break;
                        }
                        idx[k] = 0;
                        k += 1;
                    }
                    if k == total {
                        break;
                    }
                }
            }
        }
    }
    out
}

// ---------------------------------------------------------------------------
// campaigns

pub struct QueueCampaign {
    pub name: &'static str,
    pub focus: QRule,
    pub gen: QGenKind,
}

#[derive(Clone, Copy, Debug)]
pub enum QGenKind {
    General(QGen),
    Endings,
}

impl QueueCampaign {
    pub fn new(name: &'static str, focus: QRule, gen: QGenKind) -> Self {
        QueueCampaign { name, focus, gen }
    }
}

pub fn q_nontrivial(focus: QRule, st: &QStats) -> bool {
    match focus {
        QRule::Deliver => st.drop_then_other_emits || st.alternating_handles,
        QRule::Shutdown => st.final_drop_queued >= 1,
        QRule::Isolation => st.reached_full_then_accepted,
        QRule::Panics => st.consecutive_panics || st.panic_first_or_last || st.panic_with_stop_pending,
        QRule::Counters => st.emits_refused >= 1 && st.panics >= 1,
        QRule::Handler => st.errors_with_ok_between,
        QRule::Panic => st.emits_ok >= 1,
    }
}

pub fn q_classes(st: &QStats) -> Vec<&'static str> {
    let mut c = Vec::new();
    if st.drop_then_other_emits {
        c.push("handle dropped, another handle emits later");
    }
    if st.alternating_handles {
        c.push(">=2 handles emitting alternately");
    }
    if st.final_drop_queued >= 1 {
        c.push("final drop with metrics queued");
    }
    if st.final_drop_full {
        c.push("final drop with a completely full bounded queue");
    }
    if st.panics >= 1 {
        c.push("wrapped sink panicked");
    }
    if st.consecutive_panics {
        c.push("consecutive panics");
    }
    if st.panic_with_stop_pending {
        c.push("panic while a stop is pending");
    }
    if st.emits_refused >= 1 {
        c.push("emit refused (queue full)");
    }
    if st.reached_full_then_accepted {
        c.push("queue full, later accepts again");
    }
    if st.errors >= 1 {
        c.push("wrapped sink returned an error");
    }
    if st.errors_with_ok_between {
        c.push(">=2 errors with an Ok between");
    }
    c
}

impl Campaign for QueueCampaign {
    type Case = QueueCase;
    fn name(&self) -> &'static str {
        self.name
    }
    fn max_shrink_iters(&self) -> u32 {
        40
    }
    fn strategy(&self, _tier: Tier) -> BoxedStrategy<QueueCase> {
        match self.gen {
            QGenKind::General(g) => queue_case(g),
            QGenKind::Endings => ending_case(),
        }
    }
    fn check(&self, case: &QueueCase, ctx: &Ctx) -> Outcome {
        if case.cap == Some(0) && self.focus == QRule::Isolation {
            // C10 quantifies over capacities >= 1
            return Outcome::ok();
        }
        if NONFOCUS_TIMEOUTS.load(std::sync::atomic::Ordering::Relaxed) > 60 {
            // the tree has a delivery defect that is not this property's: every case would
            // wait W; stop exploring (exit 2, inconclusive) instead of running for hours
            util::mark_inconclusive("more than 60 delivery timeouts outside this property's focus: exploration cut short");
            return Outcome::ok();
        }
        let run = run_case_focus(case, ctx, Some(self.focus));
        let verdict = match run
            .findings
            .iter()
            .find(|f| (f.rules.contains(&self.focus) || f.rules.contains(&QRule::Panic)) && !crate::known::absorb(ctx.property, &f.msg))
        {
            None => Ok(()),
            Some(f) => Err(format!("op #{}: {}", f.op, f.msg)),
        };
        Outcome {
            verdict,
            nontrivial: q_nontrivial(self.focus, &run.stats),
            fingerprint: util::hash_json(case),
            classes: q_classes(&run.stats),
        }
    }
}
