//! Gated wrapped sink (DESIGN §2.3): a `MetricSink` owned by the harness. Each
//! `emit` logs `Enter`, then waits for a permit carrying the outcome the
//! generated history assigned to that metric.

use crate::util::{self, HARNESS_PANIC};
use cadence::MetricSink;
use serde::{Deserialize, Serialize};
use std::collections::{HashSet, VecDeque};
use std::io;
use std::panic::RefUnwindSafe;
use std::sync::{Arc, Condvar, Mutex, MutexGuard};
use std::thread::{self, ThreadId};
use std::time::{Duration, Instant};

#[derive(Serialize, Deserialize, Clone, Copy, Debug, PartialEq, Eq, Hash)]
pub enum StepOut {
    Ok,
    /// the wrapped sink accepts the metric but reports `Ok(0)` (as `NopMetricSink` and
    /// deferring sinks do; the `MetricSink::emit` docs say this is not an error)
    OkZero,
    /// the wrapped sink accepts the metric but reports a short, non-zero count
    /// (`Ok(n)`, 0 < n < len): the sink's business, the metric must not be handed over again
    OkShort,
    /// io::ErrorKind index
    Err(u8),
    Panic,
}

#[derive(Clone, Debug)]
pub enum Ev {
    Enter {
        seq: usize,
        metric: String,
        thread: ThreadId,
        on_producer: bool,
    },
    Exit {
        seq: usize,
        outcome: StepOut,
    },
    Handler {
        kind: io::ErrorKind,
        token: Option<u64>,
        thread: ThreadId,
    },
    Released,
}

thread_local! {
    /// set by the harness around a caller's `emit` on the queuing sink
    pub static IN_CALLER_EMIT: std::cell::Cell<bool> = const { std::cell::Cell::new(false) };
}

#[derive(Default)]
pub struct GateState {
    pub log: Vec<Ev>,
    pub permits: VecDeque<StepOut>,
    pub producers: HashSet<ThreadId>,
    pub entered: usize,
    pub exited: usize,
    pub handled: usize,
    pub released: bool,
    /// free-running mode: every emit proceeds at once with this outcome
    pub open: Option<StepOut>,
    /// outcome to use if the wrapped sink is (wrongly) run on a caller's thread
    pub caller_outcome: Option<StepOut>,
    /// the wrapped sink's flush() fails (C16: such an error is the caller's, never the handler's)
    pub flush_fails: bool,
    /// free-running mode with a repeating outcome pattern: metric #seq gets
    /// `open_cycle[seq % len]` (takes precedence over `open`)
    pub open_cycle: Option<Vec<StepOut>>,
    /// number of times the wrapped sink's stats() was called from inside a caller's emit
    pub stats_in_emit: usize,
}

#[derive(Default)]
pub struct Gate {
    pub st: Mutex<GateState>,
    pub cv: Condvar,
}

impl Gate {
    pub fn new() -> Arc<Gate> {
        Arc::new(Gate::default())
    }

    pub fn lock(&self) -> MutexGuard<'_, GateState> {
        match self.st.lock() {
            Ok(g) => g,
            Err(p) => p.into_inner(),
        }
    }

    /// wait until `pred` holds (true) or the timeout elapses (false)
    pub fn wait_until(&self, timeout: Duration, pred: impl Fn(&GateState) -> bool) -> bool {
        let deadline = Instant::now() + timeout;
        let mut g = self.lock();
        loop {
            if pred(&g) {
                return true;
            }
            let now = Instant::now();
            if now >= deadline {
                return false;
            }
            let (ng, _) = match self.cv.wait_timeout(g, deadline - now) {
                Ok(x) => x,
                Err(p) => p.into_inner(),
            };
            g = ng;
        }
    }

    pub fn permit(&self, o: StepOut) {
        let mut g = self.lock();
        g.permits.push_back(o);
        self.cv.notify_all();
    }

    pub fn set_open(&self, o: Option<StepOut>) {
        let mut g = self.lock();
        g.open = o;
        self.cv.notify_all();
    }

    pub fn set_open_cycle(&self, c: Option<Vec<StepOut>>) {
        let mut g = self.lock();
        g.open_cycle = c;
        self.cv.notify_all();
    }

    pub fn register_producer(&self, t: ThreadId) {
        self.lock().producers.insert(t);
    }

    pub fn log_handler(&self, e: &io::Error) {
        let (kind, token) = util::io_error_token(e);
        let mut g = self.lock();
        g.handled += 1;
        g.log.push(Ev::Handler {
            kind,
            token,
            thread: thread::current().id(),
        });
        self.cv.notify_all();
    }
}

pub struct GatedSink {
    pub gate: Arc<Gate>,
}

impl RefUnwindSafe for GatedSink {}

impl MetricSink for GatedSink {
    fn emit(&self, metric: &str) -> io::Result<usize> {
        let me = thread::current().id();
        let mut g = self.gate.lock();
        let seq = g.entered;
        g.entered += 1;
        let on_producer = g.producers.contains(&me);
        g.log.push(Ev::Enter {
            seq,
            metric: metric.to_string(),
            thread: me,
            on_producer,
        });
        self.gate.cv.notify_all();
        if on_producer {
            // the wrapped sink is being run on a caller's thread: never block the
            // harness, the oracle reports it
            let outcome = match g.caller_outcome {
                Some(StepOut::Err(k)) => StepOut::Err(k),
                Some(StepOut::Panic) => StepOut::Panic,
                _ => StepOut::Ok,
            };
            g.exited += 1;
            g.log.push(Ev::Exit { seq, outcome });
            drop(g);
            return match outcome {
                StepOut::Err(k) => Err(util::token_error(k, seq as u64)),
                StepOut::Panic => panic!("{} (wrapped sink, metric #{}, run on a caller's thread)", HARNESS_PANIC, seq),
                _ => Ok(metric.len()),
            };
        }
        let outcome = loop {
            if let Some(o) = g.permits.pop_front() {
                break o;
            }
            if let Some(c) = &g.open_cycle {
                if !c.is_empty() {
                    break c[seq % c.len()];
                }
            }
            if let Some(o) = g.open {
                break o;
            }
            g = match self.gate.cv.wait(g) {
                Ok(x) => x,
                Err(p) => p.into_inner(),
            };
        };
        g.exited += 1;
        g.log.push(Ev::Exit { seq, outcome });
        self.gate.cv.notify_all();
        drop(g);
        match outcome {
            StepOut::Ok => Ok(metric.len()),
            StepOut::OkZero => Ok(0),
            StepOut::OkShort => Ok(if metric.len() >= 2 { (metric.len() / 2).max(1) } else { metric.len() }),
            StepOut::Err(k) => Err(util::token_error(k, seq as u64)),
            StepOut::Panic => panic!("{} (wrapped sink, metric #{})", HARNESS_PANIC, seq),
        }
    }

    fn flush(&self) -> io::Result<()> {
        if self.gate.lock().flush_fails {
            Err(util::token_error(5, 777_777))
        } else {
            Ok(())
        }
    }

    fn stats(&self) -> cadence::SinkStats {
        self.note_stats();
        cadence::SinkStats::default()
    }
}

impl GatedSink {
    fn note_stats(&self) {
        if IN_CALLER_EMIT.with(|f| f.get()) {
            let mut g = self.gate.lock();
            g.stats_in_emit += 1;
        }
    }
}

impl Drop for GatedSink {
    fn drop(&mut self) {
        let mut g = self.gate.lock();
        g.released = true;
        g.log.push(Ev::Released);
        self.gate.cv.notify_all();
    }
}


/// A gated sink that forwards to a real inner sink once permitted (and forwards
/// flush/stats): lets the harness hold the worker blocked in front of a socket sink.
pub struct GatedForward<S> {
    pub gate: Arc<Gate>,
    pub inner: S,
}

impl<S> RefUnwindSafe for GatedForward<S> {}

impl<S: MetricSink> MetricSink for GatedForward<S> {
    fn emit(&self, metric: &str) -> io::Result<usize> {
        let mut g = self.gate.lock();
        g.entered += 1;
        self.gate.cv.notify_all();
        loop {
            if g.permits.pop_front().is_some() || g.open.is_some() {
                break;
            }
            g = match self.gate.cv.wait(g) {
                Ok(x) => x,
                Err(p) => p.into_inner(),
            };
        }
        drop(g);
        let r = self.inner.emit(metric);
        let mut g = self.gate.lock();
        g.exited += 1;
        self.gate.cv.notify_all();
        r
    }
    fn flush(&self) -> io::Result<()> {
        self.inner.flush()
    }
    fn stats(&self) -> cadence::SinkStats {
        self.inner.stats()
    }
}
