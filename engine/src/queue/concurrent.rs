//! Concurrent (OS-scheduled, sampled) modes for the queuing sink: producers on
//! their own clones against a free-running, pulsed or closed gate; a sampler
//! thread for the counters.

use super::gate::{Ev, Gate, GatedSink, StepOut};
use super::QRule;
use crate::driver::{Campaign, Ctx, Outcome, Tier};
use crate::util;
use cadence::{MetricSink, QueuingMetricSink};
use proptest::prelude::*;
use serde::{Deserialize, Serialize};
use std::sync::atomic::{AtomicBool, AtomicU64, Ordering};
use std::sync::Arc;
use std::thread;
use std::time::{Duration, Instant};

#[derive(Serialize, Deserialize, Clone, Copy, Debug, PartialEq, Eq)]
pub enum GateMode {
    /// wrapped sink proceeds at once
    Open,
    /// wrapped sink is toggled open/closed by a controller while producers run
    Pulsed,
    /// wrapped sink blocked until all producers are done
    Closed,
}

#[derive(Serialize, Deserialize, Clone, Debug)]
pub struct ConcCase {
    pub cap: Option<usize>,
    pub producers: u8,
    pub per_producer: u16,
    pub mode: GateMode,
    /// seed for per-thread yield patterns
    pub yields: u64,
    /// a sampler thread reads the counters while producers run
    pub sampler: bool,
    /// number of sampler threads (when `sampler`)
    #[serde(default)]
    pub samplers: u8,
    /// closed gate only: the last handle is dropped while the worker is still held blocked
    /// and the queue is as full as the racing producers got it
    #[serde(default)]
    pub drop_while_blocked: bool,
}

pub struct ConcCampaign {
    pub name: &'static str,
    pub focus: QRule,
}

fn conc_case(focus: QRule) -> BoxedStrategy<ConcCase> {
    let mode = match focus {
        QRule::Isolation => Just(GateMode::Closed).boxed(),
        QRule::Counters | QRule::Panic => prop_oneof![Just(GateMode::Open), Just(GateMode::Pulsed)].boxed(),
        QRule::Shutdown => prop_oneof![3 => Just(GateMode::Open), 2 => Just(GateMode::Pulsed), 3 => Just(GateMode::Closed)].boxed(),
        _ => prop_oneof![3 => Just(GateMode::Open), 2 => Just(GateMode::Pulsed)].boxed(),
    };
    let cap = match focus {
        // tiny queues make the hand-over between a producer's send and its accounting tight
        QRule::Counters | QRule::Panic => prop_oneof![2 => Just(None), 3 => (1usize..4).prop_map(Some), 1 => (4usize..64).prop_map(Some)].boxed(),
        QRule::Isolation => prop_oneof![1 => Just(None), 4 => (1usize..20).prop_map(Some)].boxed(),
        QRule::Shutdown => prop_oneof![2 => Just(None), 4 => (1usize..4).prop_map(Some), 1 => (4usize..64).prop_map(Some)].boxed(),
        _ => prop_oneof![3 => Just(None), 1 => (1usize..64).prop_map(Some)].boxed(),
    };
    (cap, 2u8..=8, 20u16..400, mode, any::<u64>())
        .prop_map(move |(cap, producers, per_producer, mode, yields)| ConcCase {
            cap,
            producers,
            per_producer: if focus == QRule::Isolation || mode == GateMode::Closed { per_producer.min(40) } else { per_producer },
            mode,
            yields,
            sampler: focus == QRule::Counters || focus == QRule::Panic,
            samplers: 1 + (yields % 4) as u8,
            drop_while_blocked: focus == QRule::Shutdown && mode == GateMode::Closed,
        })
        .boxed()
}

struct Produced {
    acked: Vec<String>,
    refused: usize,
    wrong_len: Option<String>,
    panicked: Option<String>,
}

impl Campaign for ConcCampaign {
    type Case = ConcCase;
    fn name(&self) -> &'static str {
        self.name
    }
    fn max_shrink_iters(&self) -> u32 {
        40
    }
    fn strategy(&self, _tier: Tier) -> BoxedStrategy<ConcCase> {
        conc_case(self.focus)
    }
    fn check(&self, case: &ConcCase, ctx: &Ctx) -> Outcome {
        let w = ctx.w();
        let gate = Gate::new();
        let mut findings: Vec<(QRule, String)> = Vec::new();
        match case.mode {
            GateMode::Open | GateMode::Pulsed => gate.set_open(Some(StepOut::Ok)),
            GateMode::Closed => {}
        }
        let g2 = gate.clone();
        let q = match util::catch(|| {
            let mut b = QueuingMetricSink::builder();
            if let Some(c) = case.cap {
                b = b.with_capacity(c);
            }
            b.build(GatedSink { gate: g2 })
        }) {
            Ok(q) => q,
            Err(p) => {
                return Outcome {
                    verdict: Err(format!("constructor panicked: {}", p)),
                    nontrivial: false,
                    fingerprint: 0,
                    classes: vec![],
                }
            }
        };
        let done = Arc::new(AtomicBool::new(false));
        let attempts_total = case.producers as u64 * case.per_producer as u64;
        // sampler
        let sampler_bad: Arc<std::sync::Mutex<Vec<String>>> = Arc::new(std::sync::Mutex::new(Vec::new()));
        let transient = Arc::new(AtomicU64::new(0));
        let samples = Arc::new(AtomicU64::new(0));
        let mut samplers_joined = Vec::new();
        for _ in 1..case.samplers.max(1) {
            if !case.sampler {
                break;
            }
            let qs = q.clone();
            let done = done.clone();
            let bad = sampler_bad.clone();
            samplers_joined.push(thread::spawn(move || {
                while !done.load(Ordering::Acquire) {
                    match util::catch(|| (qs.queued(), qs.submitted())) {
                        Ok((qd, s)) => {
                            if qd > s || qd > attempts_total {
                                let mut b = bad.lock().unwrap();
                                if b.len() < 3 {
                                    b.push(format!("queued() = {} but submitted() read afterwards = {} (attempts {})", qd, s, attempts_total));
                                }
                            }
                        }
                        Err(p) => {
                            let mut b = bad.lock().unwrap();
                            if b.len() < 3 {
                                b.push(format!("queued() panicked under concurrency: {}", p));
                            }
                        }
                    }
                }
                drop(qs);
            }));
        }
        let sampler = if case.sampler {
            let qs = q.clone();
            let done = done.clone();
            let bad = sampler_bad.clone();
            let transient = transient.clone();
            let samples = samples.clone();
            Some(thread::spawn(move || {
                while !done.load(Ordering::Acquire) {
                    let qd = match util::catch(|| qs.queued()) {
                        Ok(v) => v,
                        Err(p) => {
                            let mut b = bad.lock().unwrap();
                            if b.len() < 3 {
                                b.push(format!("queued() panicked under concurrency: {}", p));
                            }
                            continue;
                        }
                    };
                    let s = qs.submitted();
                    if qd > s || qd > attempts_total {
                        let mut b = bad.lock().unwrap();
                        if b.len() < 3 {
                            b.push(format!("queued() = {} but submitted() read afterwards = {} (attempts {})", qd, s, attempts_total));
                        }
                    }
                    let d = qs.drained();
                    let s2 = qs.submitted();
                    if d > s2 {
                        transient.fetch_add(1, Ordering::Relaxed);
                    }
                    samples.fetch_add(1, Ordering::Relaxed);
                }
                drop(qs);
            }))
        } else {
            None
        };
        // pulse controller
        let pulser = if case.mode == GateMode::Pulsed {
            let g = gate.clone();
            let done = done.clone();
            Some(thread::spawn(move || {
                let mut open = true;
                while !done.load(Ordering::Acquire) {
                    open = !open;
                    g.set_open(if open { Some(StepOut::Ok) } else { None });
                    thread::sleep(Duration::from_micros(200));
                }
                g.set_open(Some(StepOut::Ok));
            }))
        } else {
            None
        };
        // producers
        let (rtx, rrx) = crossbeam_channel::unbounded::<(usize, Produced)>();
        let mut producer_ids = Vec::new();
        // all producers make their very first emit at the same moment
        let start = Arc::new(std::sync::Barrier::new(case.producers as usize));
        for p in 0..case.producers as usize {
            let handle = q.clone();
            let start = start.clone();
            let rtx = rtx.clone();
            let n = case.per_producer as usize;
            let pattern = util::mix(case.yields, p as u64 + 1);
            let gate = gate.clone();
            let jh = thread::spawn(move || {
                gate.register_producer(thread::current().id());
                start.wait();
                let mut out = Produced {
                    acked: Vec::new(),
                    refused: 0,
                    wrong_len: None,
                    panicked: None,
                };
                for i in 0..n {
                    let m = format!("p{}s{}:1|c", p, i);
                    match util::catch(|| handle.emit(&m)) {
                        Ok(Ok(len)) => {
                            if len != m.len() && out.wrong_len.is_none() {
                                out.wrong_len = Some(format!("emit('{}') returned Ok({})", m, len));
                            }
                            out.acked.push(m);
                        }
                        Ok(Err(_)) => out.refused += 1,
                        Err(pm) => {
                            out.panicked = Some(pm);
                            break;
                        }
                    }
                    if (pattern >> (i % 64)) & 1 == 1 {
                        thread::yield_now();
                    }
                }
                // the clone is dropped here while others keep emitting
                drop(handle);
                let _ = rtx.send((p, out));
            });
            producer_ids.push(jh);
        }
        drop(rtx);
        let mut produced: Vec<Option<Produced>> = (0..case.producers).map(|_| None).collect();
        let deadline = Instant::now() + w + Duration::from_millis(attempts_total / 20);
        for _ in 0..case.producers {
            let left = deadline.saturating_duration_since(Instant::now());
            match rrx.recv_timeout(left) {
                Ok((p, out)) => produced[p] = Some(out),
                Err(_) => {
                    findings.push((
                        QRule::Isolation,
                        format!(
                            "a producer did not finish its {} emits within {:?} while the wrapped sink is {:?}: emit blocks on the wrapped sink",
                            case.per_producer, w, case.mode
                        ),
                    ));
                    break;
                }
            }
        }
        done.store(true, Ordering::Release);
        let blocked = produced.iter().any(|p| p.is_none());
        // closed gate: acceptance bounds, before the gate opens
        let accepted: usize = produced.iter().flatten().map(|p| p.acked.len()).sum();
        if case.mode == GateMode::Closed && !blocked {
            match case.cap {
                Some(c) => {
                    let lo = (attempts_total as usize).min(c);
                    if accepted < lo || accepted > c + 1 {
                        findings.push((
                            QRule::Isolation,
                            format!(
                                "with the wrapped sink blocked, {} of {} emits were accepted by a queue of capacity {} (expected {}..={})",
                                accepted,
                                attempts_total,
                                c,
                                lo,
                                c + 1
                            ),
                        ));
                    }
                }
                None => {
                    if accepted as u64 != attempts_total {
                        findings.push((QRule::Isolation, format!("unbounded queue refused {} emits", attempts_total - accepted as u64)));
                    }
                }
            }
        }
        for p in produced.iter().flatten() {
            if let Some(m) = &p.wrong_len {
                findings.push((QRule::Isolation, m.clone()));
            }
            if let Some(m) = &p.panicked {
                findings.push((QRule::Isolation, format!("emit panicked in a producer: {}", m)));
                findings.push((QRule::Panic, format!("emit panicked in a producer: {}", m)));
            }
        }
        if let Some(s) = sampler {
            let _ = s.join();
        }
        for s in samplers_joined {
            let _ = s.join();
        }
        if let Some(p) = pulser {
            let _ = p.join();
        }
        let mut q = Some(q);
        if case.drop_while_blocked && case.mode == GateMode::Closed && !blocked {
            let h = q.take().unwrap();
            let dropper = thread::spawn(move || drop(h));
            let deadline = Instant::now() + w;
            while !dropper.is_finished() && Instant::now() < deadline {
                thread::sleep(Duration::from_micros(200));
            }
            if !dropper.is_finished() {
                findings.push((
                    QRule::Shutdown,
                    format!("drop of the last handle did not return within {:?} while the wrapped sink is held blocked ({} metrics accepted, capacity {:?})", w, accepted, case.cap),
                ));
            } else {
                let _ = dropper.join();
            }
        }
        gate.set_open(Some(StepOut::Ok));
        // counters at the final quiescent point (all producers done; wait for the drain)
        if !blocked {
            let want = accepted;
            let drained_all = gate.wait_until(w, |g| g.exited >= want);
            if !drained_all {
                let got = gate.lock().exited;
                findings.push((
                    QRule::Deliver,
                    format!(
                        "{} emits returned Ok on live handles but only {} metrics reached the wrapped sink within {:?} after all producers finished",
                        want, got, w
                    ),
                ));
            } else if let Some(q) = &q {
                let (s, d, qd) = (q.submitted(), q.drained(), q.queued());
                if s != accepted as u64 || d != accepted as u64 || qd != 0 {
                    findings.push((
                        QRule::Counters,
                        format!("after the drain: submitted={} drained={} queued={} but {} emits returned Ok", s, d, qd, accepted),
                    ));
                }
            }
        }
        for b in sampler_bad.lock().unwrap().iter() {
            findings.push((QRule::Counters, b.clone()));
            if b.contains("panicked") {
                findings.push((QRule::Panic, b.clone()));
            }
        }
        drop(q);
        for j in producer_ids {
            if !blocked {
                let _ = j.join();
            }
        }
        // delivery: per producer, exactly its acknowledged metrics in order
        let mut interleaved = false;
        if !blocked {
            let _ = gate.wait_until(w, |g| g.released);
            let g = gate.lock();
            let mut per: Vec<Vec<&str>> = (0..case.producers).map(|_| Vec::new()).collect();
            let mut last_p: Option<usize> = None;
            let mut switches = 0;
            let mut on_producer = false;
            for e in g.log.iter() {
                if let Ev::Enter { metric, on_producer: op, .. } = e {
                    on_producer |= *op;
                    if let Some(rest) = metric.strip_prefix('p') {
                        if let Some((pn, _)) = rest.split_once('s') {
                            if let Ok(p) = pn.parse::<usize>() {
                                if p < per.len() {
                                    per[p].push(metric.as_str());
                                    if last_p.is_some() && last_p != Some(p) {
                                        switches += 1;
                                    }
                                    last_p = Some(p);
                                    continue;
                                }
                            }
                        }
                    }
                    findings.push((QRule::Deliver, format!("wrapped sink received an unknown metric '{}'", metric)));
                }
            }
            interleaved = switches >= 2;
            if on_producer {
                findings.push((QRule::Isolation, "the wrapped sink was run on a producer thread".to_string()));
            }
            for (p, prod) in produced.iter().enumerate() {
                if let Some(prod) = prod {
                    let got: Vec<&str> = per[p].clone();
                    let want: Vec<&str> = prod.acked.iter().map(|s| s.as_str()).collect();
                    if got != want {
                        let first_diff = got.iter().zip(want.iter()).position(|(a, b)| a != b).unwrap_or(got.len().min(want.len()));
                        findings.push((
                            QRule::Deliver,
                            format!(
                                "producer {}: {} emits acknowledged, wrapped sink saw {} of its metrics; first difference at #{} (acked {:?}, delivered {:?})",
                                p,
                                want.len(),
                                got.len(),
                                first_diff,
                                want.get(first_diff),
                                got.get(first_diff)
                            ),
                        ));
                        break;
                    }
                }
            }
            if !g.released {
                findings.push((
                    QRule::Shutdown,
                    format!(
                        "[sig=last-drop/wrapped-sink-not-released] all handles dropped after concurrent producers ({} accepted, capacity {:?}{}), every metric delivered, wrapped sink not released",
                        accepted,
                        case.cap,
                        if case.drop_while_blocked { ", last handle dropped while the worker was held blocked" } else { "" }
                    ),
                ));
            }
        }
        let verdict = match findings
            .iter()
            .find(|f| (f.0 == self.focus || f.0 == QRule::Panic) && !crate::known::absorb(ctx.property, &f.1))
        {
            None => Ok(()),
            Some(f) => Err(f.1.clone()),
        };
        let refused: usize = produced.iter().flatten().map(|p| p.refused).sum();
        let mut classes = Vec::new();
        if interleaved {
            classes.push("producers interleaved in the sink log");
        }
        if refused > 0 {
            classes.push("some emits refused (queue full)");
        }
        let tr = transient.load(Ordering::Relaxed);
        if tr > 0 {
            classes.push("sampler saw drained > submitted transiently");
        }
        if case.drop_while_blocked {
            classes.push("last handle dropped while the worker is held blocked and the queue is full");
        }
        let nontrivial = match self.focus {
            QRule::Counters => samples.load(Ordering::Relaxed) > 10 && (tr > 0 || interleaved),
            QRule::Isolation => refused > 0 || case.cap.is_none(),
            _ => interleaved,
        };
        Outcome {
            verdict,
            nontrivial,
            fingerprint: util::hash_json(case),
            classes,
        }
    }
}


// ---------------------------------------------------------------------------
// C10: race for the last free slot of a bounded queue

#[derive(Serialize, Deserialize, Clone, Debug)]
pub struct LastSlotCase {
    pub cap: usize,
    pub producers: u8,
    pub rounds: u16,
}

pub struct LastSlotRace;

impl Campaign for LastSlotRace {
    type Case = LastSlotCase;
    fn name(&self) -> &'static str {
        "queue-last-slot-race"
    }
    fn max_shrink_iters(&self) -> u32 {
        20
    }
    fn strategy(&self, _tier: Tier) -> BoxedStrategy<LastSlotCase> {
        (prop_oneof![3 => Just(1usize), 2 => Just(2usize), 2 => 3usize..8], 2u8..=8, 50u16..400)
            .prop_map(|(cap, producers, rounds)| LastSlotCase { cap, producers, rounds })
            .boxed()
    }
    fn check(&self, case: &LastSlotCase, ctx: &Ctx) -> Outcome {
        let w = ctx.w();
        let gate = Gate::new();
        let g2 = gate.clone();
        let q = match util::catch(|| QueuingMetricSink::with_capacity(GatedSink { gate: g2 }, case.cap)) {
            Ok(q) => q,
            Err(p) => {
                return Outcome {
                    verdict: Err(format!("constructor panicked: {}", p)),
                    nontrivial: false,
                    fingerprint: 0,
                    classes: vec![],
                }
            }
        };
        let p = case.producers as usize;
        let barrier = Arc::new(std::sync::Barrier::new(p + 1));
        let stop = Arc::new(AtomicBool::new(false));
        let (rtx, rrx) = crossbeam_channel::unbounded::<Result<usize, String>>();
        let mut joins = Vec::new();
        for t in 0..p {
            let h = q.clone();
            let barrier = barrier.clone();
            let stop = stop.clone();
            let rtx = rtx.clone();
            let gate = gate.clone();
            joins.push(thread::spawn(move || {
                gate.register_producer(thread::current().id());
                let mut round = 0usize;
                loop {
                    barrier.wait();
                    if stop.load(Ordering::Acquire) {
                        break;
                    }
                    let m = format!("r{}p{}:1|c", round, t);
                    let r = match util::catch(|| h.emit(&m)) {
                        Ok(Ok(n)) => Ok(n),
                        Ok(Err(_)) => Err(String::new()),
                        Err(pm) => Err(pm),
                    };
                    let _ = rtx.send(r);
                    round += 1;
                }
                drop(h);
            }));
        }
        gate.register_producer(thread::current().id());
        let mut verdict: Result<(), String> = Ok(());
        let mut accepted_total = 0usize;
        let mut contended_rounds = 0usize;
        'rounds: for round in 0..case.rounds as usize {
            // worker takes one metric in hand, cap-1 more fill the queue up to one free slot
            for i in 0..case.cap {
                match q.emit(&format!("fill{}.{}:1|c", round, i)) {
                    Ok(_) => accepted_total += 1,
                    Err(e) => {
                        verdict = Err(format!("round {}: pre-fill emit #{} refused ({}) although the queue has room", round, i, e));
                        break 'rounds;
                    }
                }
                if i == 0 {
                    let want = accepted_total; // everything before was drained: this one is entered
                    if !gate.wait_until(w, |g| g.entered >= want) {
                        verdict = Err(format!("round {}: accepted metric not handed to the wrapped sink within {:?}", round, w));
                        break 'rounds;
                    }
                }
            }
            // exactly one free slot now: release the producers at once
            barrier.wait();
            let mut oks = 0usize;
            for _ in 0..p {
                match rrx.recv_timeout(w) {
                    Ok(Ok(_)) => oks += 1,
                    Ok(Err(m)) if m.is_empty() => {}
                    Ok(Err(pm)) => {
                        verdict = Err(format!("emit panicked in a producer: {}", pm));
                        break 'rounds;
                    }
                    Err(_) => {
                        verdict = Err(format!("round {}: a producer's emit did not return within {:?} while the wrapped sink is blocked", round, w));
                        break 'rounds;
                    }
                }
            }
            accepted_total += oks;
            if oks != 1 {
                verdict = Err(format!(
                    "round {}: with exactly one free slot in a queue of capacity {} (wrapped sink blocked, {} already queued), {} of {} concurrent emits returned Ok: the capacity is {}",
                    round,
                    case.cap,
                    case.cap - 1,
                    oks,
                    p,
                    if oks > 1 { "exceeded" } else { "not reachable" }
                ));
                break 'rounds;
            }
            contended_rounds += 1;
            // full now: one more must be refused
            if q.emit("overflow:1|c").is_ok() {
                verdict = Err(format!("round {}: emit accepted although the bounded queue already holds its capacity {}", round, case.cap));
                break 'rounds;
            }
            // drain everything
            gate.set_open(Some(StepOut::Ok));
            let want = accepted_total;
            if !gate.wait_until(w, |g| g.exited >= want) {
                verdict = Err(format!("round {}: queued metrics were not delivered within {:?}", round, w));
                break 'rounds;
            }
            gate.set_open(None);
        }
        stop.store(true, Ordering::Release);
        gate.set_open(Some(StepOut::Ok));
        if verdict.is_ok() || !verdict.as_ref().unwrap_err().contains("did not return") {
            barrier.wait();
            for j in joins {
                let _ = j.join();
            }
        }
        drop(q);
        Outcome {
            verdict,
            nontrivial: contended_rounds >= 10,
            fingerprint: util::hash_json(case),
            classes: vec!["producers race for the last free slot"],
        }
    }
}

// ---------------------------------------------------------------------------
// many fresh sinks, first emits of all handles released by a barrier

#[derive(Serialize, Deserialize, Clone, Debug)]
pub struct FirstEmitCase {
    pub threads: u8,
    pub per_thread: u8,
    pub trials: u16,
    pub cap: Option<usize>,
}

pub struct FirstEmitRace {
    pub name: &'static str,
    pub focus: QRule,
}

impl Campaign for FirstEmitRace {
    type Case = FirstEmitCase;
    fn name(&self) -> &'static str {
        self.name
    }
    fn max_shrink_iters(&self) -> u32 {
        10
    }
    fn strategy(&self, _tier: Tier) -> BoxedStrategy<FirstEmitCase> {
        (2u8..=4, 2u8..12, 100u16..400, prop_oneof![2 => Just(None), 1 => (16usize..64).prop_map(Some)])
            .prop_map(|(threads, per_thread, trials, cap)| FirstEmitCase {
                threads,
                per_thread,
                trials,
                cap,
            })
            .boxed()
    }
    fn check(&self, case: &FirstEmitCase, ctx: &Ctx) -> Outcome {
        let w = ctx.w();
        let mut verdict: Result<(), (QRule, String)> = Ok(());
        let mut interleaved = 0usize;
        'trials: for trial in 0..case.trials as usize {
            let gate = Gate::new();
            gate.set_open(Some(StepOut::Ok));
            let g2 = gate.clone();
            let q = match util::catch(|| {
                let mut b = QueuingMetricSink::builder();
                if let Some(c) = case.cap {
                    b = b.with_capacity(c);
                }
                b.build(GatedSink { gate: g2 })
            }) {
                Ok(q) => q,
                Err(p) => {
                    verdict = Err((QRule::Panic, format!("constructor panicked: {}", p)));
                    break;
                }
            };
            let n = case.threads as usize;
            let barrier = std::sync::Barrier::new(n);
            let per = case.per_thread as usize;
            // the original handle goes away first; the clones are dropped by their threads at the same
            // moment (end barrier): the *last* drops race with each other
            let clones: Vec<QueuingMetricSink> = (0..n).map(|_| q.clone()).collect();
            drop(q);
            let end = std::sync::Barrier::new(n);
            let acked: Vec<Vec<String>> = thread::scope(|s| {
                let mut hs = Vec::new();
                for (t, h) in clones.into_iter().enumerate() {
                    let barrier = &barrier;
                    let end = &end;
                    hs.push(s.spawn(move || {
                        // everything is prepared before the barrier so that the first emits collide
                        let metrics: Vec<String> = (0..per).map(|i| format!("p{}s{}:1|c", t, i)).collect();
                        let mut acked = Vec::with_capacity(per);
                        let _ = util::catch(|| ());
                        barrier.wait();
                        for m in metrics {
                            match util::catch(|| h.emit(&m)) {
                                Ok(Ok(_)) => acked.push(m),
                                Ok(Err(_)) => {}
                                Err(p) => {
                                    // reported through a marker entry (judged below)
                                    acked.push(format!("\u{1}PANIC {}", p));
                                    break;
                                }
                            }
                        }
                        end.wait();
                        drop(h);
                        acked
                    }));
                }
                hs.into_iter().map(|h| h.join().unwrap_or_default()).collect()
            });
            if let Some(p) = acked.iter().flatten().find(|m| m.starts_with('\u{1}')) {
                verdict = Err((QRule::Panic, format!("trial {}: emit panicked in a producer making one of the first emits: {}", trial, &p[7..])));
                break;
            }
            let total: usize = acked.iter().map(|a| a.len()).sum();
            if !gate.wait_until(w, |g| g.exited >= total) {
                let got = gate.lock().exited;
                verdict = Err((
                    QRule::Deliver,
                    format!("trial {}: {} emits returned Ok but only {} metrics reached the wrapped sink within {:?}", trial, total, got, w),
                ));
                break;
            }
            if !gate.wait_until(w, |g| g.released) {
                verdict = Err((
                    QRule::Shutdown,
                    format!(
                        "[sig=last-drop/wrapped-sink-not-released] trial {}: {} handles made their first emits at the same moment, all handles dropped, every metric delivered, but the wrapped sink was not dropped within {:?}",
                        trial, n, w
                    ),
                ));
                break;
            }
            let g = gate.lock();
            let mut per_thread: Vec<Vec<&str>> = vec![Vec::new(); n];
            let mut last = usize::MAX;
            let mut switches = 0;
            let mut in_flight = 0i32;
            for e in g.log.iter() {
                match e {
                    Ev::Enter { metric, .. } => {
                        in_flight += 1;
                        if in_flight > 1 {
                            verdict = Err((QRule::Deliver, format!("trial {}: the wrapped sink was handed '{}' while it was still processing another metric (not one at a time)", trial, metric)));
                            break 'trials;
                        }
                        if let Some(t) = metric.strip_prefix('p').and_then(|r| r.split_once('s')).and_then(|(t, _)| t.parse::<usize>().ok()) {
                            if t < n {
                                per_thread[t].push(metric.as_str());
                                if last != usize::MAX && last != t {
                                    switches += 1;
                                }
                                last = t;
                            }
                        }
                    }
                    Ev::Exit { .. } => in_flight -= 1,
                    _ => {}
                }
            }
            if switches >= 2 {
                interleaved += 1;
            }
            for t in 0..n {
                let want: Vec<&str> = acked[t].iter().map(|s| s.as_str()).collect();
                if per_thread[t] != want {
                    verdict = Err((
                        QRule::Deliver,
                        format!("trial {}: producer {} acknowledged {:?} but the wrapped sink saw {:?}", trial, t, want, per_thread[t]),
                    ));
                    break 'trials;
                }
            }
        }
        let v = match verdict {
            Ok(()) => Ok(()),
            Err((rule, msg)) => {
                if (rule == self.focus || rule == QRule::Panic) && !crate::known::absorb(ctx.property, &msg) {
                    Err(msg)
                } else {
                    Ok(())
                }
            }
        };
        Outcome {
            verdict: v,
            nontrivial: interleaved > 0,
            fingerprint: util::hash_json(case),
            classes: vec!["fresh sinks whose handles make their first emits simultaneously"],
        }
    }
}

// ---------------------------------------------------------------------------
// C10 / C11: producers keep emitting while the wrapped sink panics (and fails)
// in a repeating pattern, i.e. while worker threads unwind and are replaced.
// The queue always has room for every attempt, so every emit must return Ok.

#[derive(Serialize, Deserialize, Clone, Debug)]
pub struct PanicStormCase {
    /// None = unbounded; Some(extra) = bounded with capacity attempts + extra (never full)
    pub spare: Option<u8>,
    pub producers: u8,
    pub per_producer: u16,
    /// outcome of metric #seq is cycle[seq % len]
    pub cycle: Vec<StepOut>,
    pub yields: u64,
}

pub struct PanicStorm {
    pub name: &'static str,
    pub focus: QRule,
}

impl Campaign for PanicStorm {
    type Case = PanicStormCase;
    fn name(&self) -> &'static str {
        self.name
    }
    fn max_shrink_iters(&self) -> u32 {
        30
    }
    fn strategy(&self, _tier: Tier) -> BoxedStrategy<PanicStormCase> {
        let out = prop_oneof![4 => Just(StepOut::Panic), 2 => Just(StepOut::Ok), 1 => (0u8..13).prop_map(StepOut::Err), 1 => Just(StepOut::OkZero)];
        (
            prop::option::weighted(0.4, 0u8..4),
            1u8..=6,
            50u16..1500,
            prop_oneof![2 => Just(vec![StepOut::Panic]), 5 => prop::collection::vec(out, 1..6)],
            any::<u64>(),
        )
            .prop_map(|(spare, producers, per_producer, cycle, yields)| PanicStormCase {
                spare,
                producers,
                per_producer,
                cycle,
                yields,
            })
            .boxed()
    }
    fn check(&self, case: &PanicStormCase, ctx: &Ctx) -> Outcome {
        let w = ctx.w();
        let gate = Gate::new();
        gate.set_open_cycle(Some(case.cycle.clone()));
        let attempts = case.producers as usize * case.per_producer as usize;
        let g2 = gate.clone();
        let q = match util::catch(|| match case.spare {
            None => QueuingMetricSink::from(GatedSink { gate: g2 }),
            Some(x) => QueuingMetricSink::with_capacity(GatedSink { gate: g2 }, attempts + x as usize),
        }) {
            Ok(q) => q,
            Err(p) => {
                return Outcome {
                    verdict: Err(format!("constructor panicked: {}", p)),
                    nontrivial: false,
                    fingerprint: 0,
                    classes: vec![],
                }
            }
        };
        let mut findings: Vec<(QRule, String)> = Vec::new();
        let start = Arc::new(std::sync::Barrier::new(case.producers as usize));
        let mut joins = Vec::new();
        for p in 0..case.producers as usize {
            let h = q.clone();
            let start = start.clone();
            let n = case.per_producer as usize;
            let pattern = util::mix(case.yields, p as u64 + 1);
            let gate = gate.clone();
            joins.push(thread::spawn(move || {
                gate.register_producer(thread::current().id());
                let _ = util::catch(|| ());
                start.wait();
                let mut acked: Vec<String> = Vec::new();
                let mut bad: Vec<String> = Vec::new();
                for i in 0..n {
                    let m = format!("p{}s{}:1|c", p, i);
                    let t0 = Instant::now();
                    let r = util::catch(|| h.emit(&m));
                    if t0.elapsed() > w && bad.len() < 3 {
                        bad.push(format!("emit('{}') took {:?} while the wrapped sink was panicking", m, t0.elapsed()));
                    }
                    match r {
                        Ok(Ok(len)) => {
                            if len != m.len() && bad.len() < 3 {
                                bad.push(format!("emit('{}') returned Ok({})", m, len));
                            }
                            acked.push(m);
                        }
                        Ok(Err(e)) => {
                            if bad.len() < 3 {
                                bad.push(format!(
                                    "emit('{}') returned Err({:?}: {}) although the queue has room for every attempt: the wrapped sink's panics/errors surfaced in an emit result",
                                    m,
                                    e.kind(),
                                    e
                                ));
                            }
                        }
                        Err(pm) => {
                            bad.push(format!("emit panicked in a producer: {}", pm));
                            break;
                        }
                    }
                    if (pattern >> (i % 64)) & 1 == 1 {
                        thread::yield_now();
                    }
                }
                drop(h);
                (acked, bad)
            }));
        }
        let mut acked: Vec<Vec<String>> = Vec::new();
        for j in joins {
            match j.join() {
                Ok((a, b)) => {
                    for m in b {
                        let rule = if m.contains("panicked in a producer") { QRule::Panic } else { QRule::Isolation };
                        findings.push((rule, m));
                    }
                    acked.push(a);
                }
                Err(_) => findings.push((QRule::Panic, "a producer thread died: a panic of the wrapped sink unwound into a caller thread".into())),
            }
        }
        let accepted: usize = acked.iter().map(|a| a.len()).sum();
        // everything accepted is handed over exactly once, per producer in order; panics counted
        // the backlog is proportional to the number of emits (every panic replaces the worker
        // thread): wait as long as the hand-overs make progress, W without progress fails
        let mut seen = gate.lock().exited;
        let drained_all = loop {
            if seen >= accepted {
                break true;
            }
            let from = seen;
            if !gate.wait_until(w, |g| g.exited > from) {
                break false;
            }
            seen = gate.lock().exited;
        };
        if !drained_all {
            let got = gate.lock().exited;
            let m = format!(
                "{} emits returned Ok but only {} metrics reached the wrapped sink and no further one within {:?} (outcome cycle {:?})",
                accepted, got, w, case.cycle
            );
            findings.push((QRule::Deliver, m.clone()));
            findings.push((QRule::Panics, m));
        } else {
            let (per, expected_panics) = {
                let g = gate.lock();
                let mut per: Vec<Vec<String>> = vec![Vec::new(); case.producers as usize];
                let mut on_producer = false;
                for e in g.log.iter() {
                    if let Ev::Enter { metric, on_producer: op, .. } = e {
                        on_producer |= *op;
                        if let Some(p) = metric.strip_prefix('p').and_then(|r| r.split_once('s')).and_then(|(p, _)| p.parse::<usize>().ok()) {
                            if p < per.len() {
                                per[p].push(metric.clone());
                            }
                        }
                    }
                }
                if on_producer {
                    findings.push((QRule::Isolation, "the wrapped sink was run on a producer thread".into()));
                }
                let ep = g.log.iter().filter(|e| matches!(e, Ev::Exit { outcome: StepOut::Panic, .. })).count() as u64;
                (per, ep)
            };
            for (p, a) in acked.iter().enumerate() {
                if per[p] != *a {
                    let m = format!(
                        "producer {}: {} emits acknowledged but the wrapped sink was handed {} of its metrics (only a panicking metric may be consumed; cycle {:?})",
                        p,
                        a.len(),
                        per[p].len(),
                        case.cycle
                    );
                    findings.push((QRule::Panics, m.clone()));
                    findings.push((QRule::Deliver, m));
                    break;
                }
            }
            let deadline = Instant::now() + w;
            let mut pc = q.panics();
            while pc < expected_panics && Instant::now() < deadline {
                thread::sleep(Duration::from_micros(200));
                pc = q.panics();
            }
            if pc != expected_panics {
                findings.push((QRule::Panics, format!("panics() = {} but the wrapped sink panicked {} times", pc, expected_panics)));
            }
            let (s, d, qd) = (q.submitted(), q.drained(), q.queued());
            if s != accepted as u64 || d != accepted as u64 || qd != 0 {
                findings.push((
                    QRule::Counters,
                    format!("after the drain: submitted={} drained={} queued={} but {} emits returned Ok", s, d, qd, accepted),
                ));
            }
        }
        drop(q);
        if findings.is_empty() && !gate.wait_until(w, |g| g.released) {
            findings.push((
                QRule::Shutdown,
                "[sig=last-drop/wrapped-sink-not-released] all handles dropped after a run of wrapped-sink panics, wrapped sink not released".into(),
            ));
        }
        gate.set_open(Some(StepOut::Ok));
        let verdict = match findings
            .iter()
            .find(|f| (f.0 == self.focus || f.0 == QRule::Panic) && !crate::known::absorb(ctx.property, &f.1))
        {
            None => Ok(()),
            Some(f) => Err(f.1.clone()),
        };
        let panics_in_cycle = case.cycle.iter().filter(|o| **o == StepOut::Panic).count();
        Outcome {
            verdict,
            nontrivial: panics_in_cycle > 0 && case.producers >= 2,
            fingerprint: util::hash_json(case),
            classes: vec![if panics_in_cycle == case.cycle.len() {
                "every metric panics in the wrapped sink while producers emit"
            } else if panics_in_cycle > 0 {
                "panics mixed with ok/err while producers emit"
            } else {
                "no panic in the cycle"
            }],
        }
    }
}

// ---------------------------------------------------------------------------
// C10 / C08: a queuing sink whose wrapped sink itself emits into another queuing
// sink (chained queues, or a sink that reports its own statistics through one): the
// inner emit runs on a worker thread. Its result too depends only on queue room.

#[derive(Serialize, Deserialize, Clone, Debug)]
pub struct ChainCase {
    pub metrics: u16,
    /// capacity of the second queue: None = unbounded, Some(extra) = metrics + extra (never full)
    pub spare: Option<u8>,
    /// the first queue's wrapped sink fails every k-th metric after forwarding it (0 = never)
    pub fail_every: u8,
    pub handler: bool,
}

struct Forward {
    next: QueuingMetricSink,
    results: Arc<std::sync::Mutex<Vec<Result<usize, String>>>>,
    fail_every: u8,
    seen: std::sync::atomic::AtomicUsize,
}

impl std::panic::RefUnwindSafe for Forward {}

impl MetricSink for Forward {
    fn emit(&self, metric: &str) -> std::io::Result<usize> {
        let r = self.next.emit(metric);
        self.results.lock().unwrap().push(match &r {
            Ok(n) => Ok(*n),
            Err(e) => Err(format!("{:?}: {}", e.kind(), e)),
        });
        let n = self.seen.fetch_add(1, Ordering::SeqCst) + 1;
        if self.fail_every > 0 && n % self.fail_every as usize == 0 {
            return Err(std::io::Error::new(std::io::ErrorKind::Other, "forwarding sink reports a failure of its own"));
        }
        r
    }
}

pub struct ChainedQueues {
    pub name: &'static str,
    pub focus: QRule,
}

impl Campaign for ChainedQueues {
    type Case = ChainCase;
    fn name(&self) -> &'static str {
        self.name
    }
    fn max_shrink_iters(&self) -> u32 {
        30
    }
    fn strategy(&self, _tier: Tier) -> BoxedStrategy<ChainCase> {
        (1u16..200, prop::option::weighted(0.4, 0u8..3), prop_oneof![2 => Just(0u8), 1 => 1u8..5], any::<bool>())
            .prop_map(|(metrics, spare, fail_every, handler)| ChainCase {
                metrics,
                spare,
                fail_every,
                handler,
            })
            .boxed()
    }
    fn check(&self, case: &ChainCase, ctx: &Ctx) -> Outcome {
        let w = ctx.w();
        let gate = Gate::new();
        gate.set_open(Some(StepOut::Ok));
        let n = case.metrics as usize;
        let g2 = gate.clone();
        let results = Arc::new(std::sync::Mutex::new(Vec::new()));
        let handled = Arc::new(std::sync::atomic::AtomicUsize::new(0));
        let built = util::catch(|| {
            let q2 = match case.spare {
                None => QueuingMetricSink::from(GatedSink { gate: g2 }),
                Some(x) => QueuingMetricSink::with_capacity(GatedSink { gate: g2 }, n + x as usize),
            };
            let fwd = Forward {
                next: q2,
                results: results.clone(),
                fail_every: case.fail_every,
                seen: std::sync::atomic::AtomicUsize::new(0),
            };
            if case.handler {
                let h = handled.clone();
                QueuingMetricSink::builder()
                    .with_error_handler(move |_e| {
                        h.fetch_add(1, Ordering::SeqCst);
                    })
                    .build(fwd)
            } else {
                QueuingMetricSink::from(fwd)
            }
        });
        let q1 = match built {
            Ok(q) => q,
            Err(p) => {
                return Outcome {
                    verdict: Err(format!("constructor panicked: {}", p)),
                    nontrivial: false,
                    fingerprint: 0,
                    classes: vec![],
                }
            }
        };
        let mut findings: Vec<(QRule, String)> = Vec::new();
        let mut sent: Vec<String> = Vec::new();
        for i in 0..n {
            let m = format!("chain{}:1|c", i);
            match util::catch(|| q1.emit(&m)) {
                Ok(Ok(_)) => sent.push(m),
                Ok(Err(e)) => findings.push((QRule::Isolation, format!("emit into the (unbounded) first queue returned Err({})", e))),
                Err(p) => findings.push((QRule::Panic, format!("emit panicked: {}", p))),
            }
        }
        // every metric passes through both workers
        let want = sent.len();
        let mut seen = 0usize;
        let all = loop {
            if seen >= want {
                break true;
            }
            let from = seen;
            if !gate.wait_until(w, |g| g.exited > from) {
                break false;
            }
            seen = gate.lock().exited;
        };
        let res = results.lock().unwrap().clone();
        if let Some((i, Err(e))) = res.iter().enumerate().find(|(_, r)| r.is_err()) {
            findings.push((
                QRule::Isolation,
                format!(
                    "emit #{} into the second queuing sink (made by the first one's wrapped sink, i.e. on a worker thread) returned Err({}) although that queue has room for every metric: the result must depend on queue room only",
                    i, e
                ),
            ));
        }
        if !all {
            let m = format!("{} metrics were accepted by the first queue but only {} came out of the second one within {:?} of the last progress", want, seen, w);
            findings.push((QRule::Deliver, m.clone()));
            if findings.iter().all(|f| f.0 != QRule::Isolation) {
                findings.push((QRule::Isolation, m));
            }
        } else {
            let g = gate.lock();
            let got: Vec<&str> = g
                .log
                .iter()
                .filter_map(|e| match e {
                    Ev::Enter { metric, .. } => Some(metric.as_str()),
                    _ => None,
                })
                .collect();
            let wantv: Vec<&str> = sent.iter().map(|s| s.as_str()).collect();
            if got != wantv {
                findings.push((QRule::Deliver, format!("chained queues delivered {} metrics, {} were accepted, or the order differs", got.len(), wantv.len())));
            }
        }
        drop(q1);
        if findings.is_empty() && !gate.wait_until(w, |g| g.released) {
            findings.push((
                QRule::Shutdown,
                "[sig=last-drop/wrapped-sink-not-released] chained queuing sinks: after the outer handle was dropped the innermost sink was not released".into(),
            ));
        }
        let verdict = match findings
            .iter()
            .find(|f| (f.0 == self.focus || f.0 == QRule::Panic) && !crate::known::absorb(ctx.property, &f.1))
        {
            None => Ok(()),
            Some(f) => Err(f.1.clone()),
        };
        Outcome {
            verdict,
            nontrivial: n >= 2,
            fingerprint: util::hash_json(case),
            classes: vec!["emit made on another queuing sink's worker thread (chained queues)"],
        }
    }
}

// ---------------------------------------------------------------------------
// C09: many fresh sinks whose last handle is dropped right away (optionally after a
// few emits), racing with the start-up / parking of the worker thread. Every wrapped
// sink must be released. Found the zero-capacity remainder of the lost-stop defect.

#[derive(Serialize, Deserialize, Clone, Debug)]
pub struct DropRaceCase {
    pub cap: Option<usize>,
    pub trials: u32,
    /// emits attempted before the drop
    pub pre_emits: u8,
    /// busy-wait iterations between construction and drop: (trial % 7) * spin
    pub spin: u16,
}

struct CountDrop(Arc<std::sync::atomic::AtomicUsize>, Arc<std::sync::atomic::AtomicUsize>);

impl std::panic::RefUnwindSafe for CountDrop {}

impl MetricSink for CountDrop {
    fn emit(&self, metric: &str) -> std::io::Result<usize> {
        self.1.fetch_add(1, Ordering::SeqCst);
        Ok(metric.len())
    }
}

impl Drop for CountDrop {
    fn drop(&mut self) {
        self.0.fetch_add(1, Ordering::SeqCst);
    }
}

pub struct DropRace;

impl Campaign for DropRace {
    type Case = DropRaceCase;
    fn name(&self) -> &'static str {
        "queue-drop-race"
    }
    fn max_shrink_iters(&self) -> u32 {
        8
    }
    fn strategy(&self, _tier: Tier) -> BoxedStrategy<DropRaceCase> {
        (
            prop_oneof![4 => Just(Some(0usize)), 2 => Just(Some(1usize)), 1 => Just(Some(2usize)), 1 => Just(None)],
            1_500u32..4_000,
            prop_oneof![3 => Just(0u8), 1 => 1u8..4],
            prop_oneof![Just(0u16), 1u16..400],
        )
            .prop_map(|(cap, trials, pre_emits, spin)| DropRaceCase { cap, trials, pre_emits, spin })
            .boxed()
    }
    fn check(&self, case: &DropRaceCase, ctx: &Ctx) -> Outcome {
        let w = ctx.w();
        let released = Arc::new(std::sync::atomic::AtomicUsize::new(0));
        let delivered = Arc::new(std::sync::atomic::AtomicUsize::new(0));
        let mut accepted = 0usize;
        let mut bad: Vec<String> = Vec::new();
        for t in 0..case.trials as usize {
            let sink = CountDrop(released.clone(), delivered.clone());
            let q = match util::catch(|| match case.cap {
                Some(c) => QueuingMetricSink::with_capacity(sink, c),
                None => QueuingMetricSink::from(sink),
            }) {
                Ok(q) => q,
                Err(p) => {
                    bad.push(format!("constructor panicked: {}", p));
                    break;
                }
            };
            for i in 0..case.pre_emits {
                if let Ok(Ok(_)) = util::catch(|| q.emit(if i % 2 == 0 { "a:1|c" } else { "bb:2|c" })) {
                    accepted += 1;
                }
            }
            for _ in 0..(t % 7) * case.spin as usize {
                std::hint::spin_loop();
            }
            if let Err(p) = util::catch(move || drop(q)) {
                bad.push(format!("drop panicked: {}", p));
                break;
            }
        }
        let want = case.trials as usize;
        if bad.is_empty() {
            // progress-based wait: W without a further release fails
            let mut seen = released.load(Ordering::SeqCst);
            let mut last_progress = Instant::now();
            while seen < want && last_progress.elapsed() < w {
                thread::sleep(Duration::from_micros(500));
                let now = released.load(Ordering::SeqCst);
                if now > seen {
                    seen = now;
                    last_progress = Instant::now();
                }
            }
            if seen < want {
                bad.push(format!(
                    "[sig=last-drop/wrapped-sink-not-released] {} queuing sinks (capacity {:?}, {} emits each) were created and their only handle dropped at once; {} wrapped sinks were never dropped (worker threads that never terminate)",
                    want,
                    case.cap,
                    case.pre_emits,
                    want - seen
                ));
            } else if delivered.load(Ordering::SeqCst) != accepted {
                bad.push(format!(
                    "{} emits returned Ok before the drops but the wrapped sinks were handed {} metrics",
                    accepted,
                    delivered.load(Ordering::SeqCst)
                ));
            }
        }
        Outcome {
            verdict: match bad.iter().find(|b| !crate::known::absorb(ctx.property, b)) {
                None => Ok(()),
                Some(b) => Err(b.clone()),
            },
            nontrivial: case.trials >= 1000,
            fingerprint: util::hash_json(case),
            classes: vec![match case.cap {
                Some(0) => "fresh zero-capacity sinks dropped at once",
                Some(_) => "fresh bounded sinks dropped at once",
                None => "fresh unbounded sinks dropped at once",
            }],
        }
    }
}

// ---------------------------------------------------------------------------
// C16: an error handler that itself emits into another queuing sink (a backup / alert
// sink, as the library's docs suggest handlers may do "something" with the error). The
// second sink's own handler must see each of *its* wrapped sink's failures exactly once,
// although those metrics were emitted from inside a handler, on a worker thread.

#[derive(Serialize, Deserialize, Clone, Debug)]
pub struct HandlerChainCase {
    /// outcome of the first wrapped sink for metric #i: pattern[i % len]
    pub pattern: Vec<bool>,
    pub metrics: u8,
    /// the backup sink's wrapped sink fails every k-th metric it gets (1 = all)
    pub backup_fail_every: u8,
}

struct ScriptErr {
    fail: Box<dyn Fn(usize) -> bool + Send + Sync>,
    seen: std::sync::atomic::AtomicUsize,
    failed: Arc<std::sync::atomic::AtomicUsize>,
    got: Arc<std::sync::atomic::AtomicUsize>,
}

impl std::panic::RefUnwindSafe for ScriptErr {}

impl MetricSink for ScriptErr {
    fn emit(&self, metric: &str) -> std::io::Result<usize> {
        let i = self.seen.fetch_add(1, Ordering::SeqCst);
        self.got.fetch_add(1, Ordering::SeqCst);
        if (self.fail)(i) {
            self.failed.fetch_add(1, Ordering::SeqCst);
            Err(std::io::Error::new(std::io::ErrorKind::BrokenPipe, format!("scripted failure #{}", i)))
        } else {
            Ok(metric.len())
        }
    }
}

struct SendSink(QueuingMetricSink);
impl std::panic::RefUnwindSafe for SendSink {}

pub struct HandlerChain;

impl Campaign for HandlerChain {
    type Case = HandlerChainCase;
    fn name(&self) -> &'static str {
        "queue-handler-forwarding"
    }
    fn max_shrink_iters(&self) -> u32 {
        40
    }
    fn strategy(&self, _tier: Tier) -> BoxedStrategy<HandlerChainCase> {
        (prop::collection::vec(any::<bool>(), 1..6), 1u8..40, 1u8..4)
            .prop_map(|(pattern, metrics, backup_fail_every)| HandlerChainCase {
                pattern,
                metrics,
                backup_fail_every,
            })
            .boxed()
    }
    fn check(&self, case: &HandlerChainCase, ctx: &Ctx) -> Outcome {
        let w = ctx.w();
        let cnt = || Arc::new(std::sync::atomic::AtomicUsize::new(0));
        let (f1, g1, f2, g2, h1, h2) = (cnt(), cnt(), cnt(), cnt(), cnt(), cnt());
        let k = case.backup_fail_every.max(1) as usize;
        let backup_sink = ScriptErr {
            fail: Box::new(move |i| (i + 1) % k == 0),
            seen: std::sync::atomic::AtomicUsize::new(0),
            failed: f2.clone(),
            got: g2.clone(),
        };
        let h2c = h2.clone();
        let backup = QueuingMetricSink::builder()
            .with_error_handler(move |_e| {
                h2c.fetch_add(1, Ordering::SeqCst);
            })
            .build(backup_sink);
        let pat = case.pattern.clone();
        let first_sink = ScriptErr {
            fail: Box::new(move |i| pat[i % pat.len()]),
            seen: std::sync::atomic::AtomicUsize::new(0),
            failed: f1.clone(),
            got: g1.clone(),
        };
        let h1c = h1.clone();
        let fwd = SendSink(backup.clone());
        let backup_refused = cnt();
        let br = backup_refused.clone();
        let q = QueuingMetricSink::builder()
            .with_error_handler(move |_e| {
                h1c.fetch_add(1, Ordering::SeqCst);
                // report the failure through the backup sink
                if fwd.0.emit("primary.failed:1|c").is_err() {
                    br.fetch_add(1, Ordering::SeqCst);
                }
            })
            .build(first_sink);
        let n = case.metrics as usize;
        let mut bad: Vec<String> = Vec::new();
        for i in 0..n {
            if let Err(e) = q.emit(&format!("m{}:1|c", i)) {
                bad.push(format!("emit into an unbounded queuing sink failed: {}", e));
                break;
            }
        }
        let expect_f1 = (0..n).filter(|i| case.pattern[i % case.pattern.len()]).count();
        let expect_f2 = expect_f1 / k;
        let deadline = Instant::now() + w;
        let settled = |g1: &Arc<std::sync::atomic::AtomicUsize>, g2: &Arc<std::sync::atomic::AtomicUsize>, h1: &Arc<std::sync::atomic::AtomicUsize>, h2: &Arc<std::sync::atomic::AtomicUsize>| {
            g1.load(Ordering::SeqCst) >= n && h1.load(Ordering::SeqCst) >= expect_f1 && g2.load(Ordering::SeqCst) >= expect_f1 && h2.load(Ordering::SeqCst) >= expect_f2
        };
        while !settled(&g1, &g2, &h1, &h2) && Instant::now() < deadline {
            thread::sleep(Duration::from_micros(300));
        }
        thread::sleep(Duration::from_millis(2));
        let (vf1, vh1, vg2, vf2, vh2) = (
            f1.load(Ordering::SeqCst),
            h1.load(Ordering::SeqCst),
            g2.load(Ordering::SeqCst),
            f2.load(Ordering::SeqCst),
            h2.load(Ordering::SeqCst),
        );
        if bad.is_empty() {
            if vh1 != vf1 {
                bad.push(format!("the first wrapped sink failed {} times but its error handler was invoked {} times", vf1, vh1));
            } else if backup_refused.load(Ordering::SeqCst) > 0 {
                bad.push(format!(
                    "{} emits made by the first sink's error handler into the (unbounded) backup queuing sink were refused",
                    backup_refused.load(Ordering::SeqCst)
                ));
            } else if vg2 != vh1 {
                bad.push(format!("the error handler forwarded {} metrics to the backup queuing sink but its wrapped sink got {} within {:?}", vh1, vg2, w));
            } else if vh2 != vf2 {
                bad.push(format!(
                    "the backup sink's wrapped sink failed {} times (for metrics emitted from inside the first sink's error handler) but the backup sink's own error handler was invoked {} times",
                    vf2, vh2
                ));
            }
        }
        drop(q);
        drop(backup);
        Outcome {
            verdict: match bad.iter().find(|b| !crate::known::absorb(ctx.property, b)) {
                None => Ok(()),
                Some(b) => Err(b.clone()),
            },
            nontrivial: expect_f1 >= 1 && expect_f2 >= 1,
            fingerprint: util::hash_json(case),
            classes: vec!["error handler that emits into a second queuing sink with its own handler"],
        }
    }
}
