//! C12: concurrent emitters through one shared client over a buffered sink.
//! Sampling of OS schedules (not enumeration): the std Mutex inside the sinks is
//! not hookable; the seed fixes workloads and injected yields only.

use crate::driver::{Campaign, Ctx, Outcome, Tier};
use crate::util;
use cadence::prelude::*;
use cadence::{BufferedSpyMetricSink, BufferedUdpMetricSink, BufferedUnixMetricSink, Metric, StatsdClient};
use proptest::prelude::*;
use serde::{Deserialize, Serialize};
use std::collections::HashMap;
use std::net::UdpSocket;
use std::os::unix::net::UnixDatagram;
use std::sync::atomic::{AtomicBool, Ordering};
use std::sync::{Arc, Mutex};
use std::time::Duration;

#[derive(Serialize, Deserialize, Clone, Copy, Debug, PartialEq, Eq)]
pub enum StressSink {
    Spy,
    Unix,
    Udp,
    /// blocking Unix socket whose receiver is not read for a while: one thread
    /// blocks in sendto inside the sink's critical section while others emit
    UnixBlockedReceiver,
    /// the documented production setup: client over a QueuingMetricSink over a
    /// buffered (spy) sink; flushes go through the queuing wrapper
    QueuedSpy,
    /// the same with a small bounded queue: emits are refused while the queue is full;
    /// every acknowledged metric must still leave whole, once and in program order
    QueuedSpyBounded,
}

#[derive(Serialize, Deserialize, Clone, Debug)]
pub struct StressCase {
    pub sink: StressSink,
    pub cap: usize,
    pub threads: u8,
    pub per_thread: u16,
    /// every k-th operation of a thread is client.flush() (0 = never)
    pub flush_every: u8,
    pub yields: u64,
}

pub struct StressCampaign {
    pub name: &'static str,
    pub sinks: &'static [StressSink],
    /// C07 view: with a socket that never fails, an emit/flush returning an error
    /// is not "the socket's error". (C12 itself only speaks about the datagram
    /// stream, so there errors are reported as a class, not as a violation.)
    pub judge_errors: bool,
    /// C05 view: judge only the shape of every datagram (within capacity, whole
    /// terminated lines of metrics that were emitted), not order or conservation
    pub framing_only: bool,
    /// C19 view: no explicit flushes; every datagram except the one written by the final
    /// drop must have been too full for the longest line (loss- and order-insensitive)
    pub greedy_only: bool,
}

struct Tmp(std::path::PathBuf);
impl Drop for Tmp {
    fn drop(&mut self) {
        let _ = std::fs::remove_dir_all(&self.0);
    }
}

static CNT: std::sync::atomic::AtomicU64 = std::sync::atomic::AtomicU64::new(0);

impl Campaign for StressCampaign {
    type Case = StressCase;
    fn name(&self) -> &'static str {
        self.name
    }
    fn max_shrink_iters(&self) -> u32 {
        25
    }
    fn strategy(&self, _tier: Tier) -> BoxedStrategy<StressCase> {
        let sinks: Vec<StressSink> = self.sinks.to_vec();
        let greedy_only = self.greedy_only;
        (
            prop::sample::select(sinks),
            // small capacities make some of the 9..14-byte lines exact fits, capacity-1 fits or oversized
            prop_oneof![2 => Just(24usize), 2 => Just(32usize), 2 => Just(64usize), 1 => Just(128usize), 1 => Just(512usize), 3 => 24usize..200, 3 => 10usize..24],
            2u8..=16,
            100u16..1500,
            prop_oneof![Just(0u8), 3u8..40],
            any::<u64>(),
        )
            .prop_map(move |(sink, cap, threads, per_thread, flush_every, yields)| StressCase {
                sink,
                cap,
                threads,
                per_thread: if sink == StressSink::UnixBlockedReceiver { per_thread.min(300) } else { per_thread },
                flush_every: if greedy_only { 0 } else { flush_every },
                yields,
            })
            .boxed()
    }
    fn check(&self, case: &StressCase, ctx: &Ctx) -> Outcome {
        let w = ctx.w();
        // ---- set up sink + receiver
        let datagrams: Arc<Mutex<Vec<Vec<u8>>>> = Arc::new(Mutex::new(Vec::new()));
        let stop = Arc::new(AtomicBool::new(false));
        let hold = Arc::new(AtomicBool::new(case.sink == StressSink::UnixBlockedReceiver));
        let mut _tmp = None;
        let mut spy_rx = None;
        let mut reader: Option<std::thread::JoinHandle<()>> = None;
        let released = Arc::new(std::sync::atomic::AtomicUsize::new(0));
        let mut queue_clones: Vec<cadence::QueuingMetricSink> = Vec::new();
        let client: StatsdClient = match case.sink {
            StressSink::QueuedSpy | StressSink::QueuedSpyBounded => {
                let (rx, sink) = BufferedSpyMetricSink::with_capacity(None, Some(case.cap));
                spy_rx = Some(rx);
                let rec = crate::sockets::Recording {
                    inner: sink,
                    log: Arc::new(Mutex::new(Vec::new())),
                    done: Arc::new(std::sync::atomic::AtomicUsize::new(0)),
                    released: crate::sockets::ReleaseSignal(released.clone()),
                };
                let q = if case.sink == StressSink::QueuedSpyBounded {
                    cadence::QueuingMetricSink::with_capacity(rec, 1 + (case.yields % 6) as usize)
                } else {
                    crate::queue::build_queuing(rec, case.yields)
                };
                // clones of the queuing handle exist elsewhere in a real program (they must not
                // add consumers: one thread's metrics stay in program order)
                queue_clones = (0..1 + (case.yields >> 8) % 3).map(|_| q.clone()).collect();
                StatsdClient::from_sink("", q)
            }
            StressSink::Spy => {
                let (rx, sink) = BufferedSpyMetricSink::with_capacity(None, Some(case.cap));
                spy_rx = Some(rx);
                StatsdClient::from_sink("", sink)
            }
            StressSink::Unix | StressSink::UnixBlockedReceiver => {
                let dir = std::env::temp_dir().join(format!("verif-stress-{}-{}", std::process::id(), CNT.fetch_add(1, Ordering::Relaxed)));
                if std::fs::create_dir_all(&dir).is_err() {
                    util::mark_inconclusive("cannot create temp dir");
                    return Outcome::ok();
                }
                let path = dir.join("rx.sock");
                _tmp = Some(Tmp(dir));
                let rx = match UnixDatagram::bind(&path) {
                    Ok(r) => r,
                    Err(e) => {
                        util::mark_inconclusive(&e.to_string());
                        return Outcome::ok();
                    }
                };
                let _ = rx.set_read_timeout(Some(Duration::from_millis(20)));
                let d = datagrams.clone();
                let st = stop.clone();
                let hd = hold.clone();
                reader = Some(std::thread::spawn(move || {
                    let mut buf = vec![0u8; 65536];
                    loop {
                        if hd.load(Ordering::Acquire) {
                            std::thread::sleep(Duration::from_millis(1));
                            continue;
                        }
                        match rx.recv(&mut buf) {
                            Ok(n) => d.lock().unwrap().push(buf[..n].to_vec()),
                            Err(_) => {
                                if st.load(Ordering::Acquire) {
                                    break;
                                }
                            }
                        }
                    }
                }));
                let sock = UnixDatagram::unbound().unwrap();
                StatsdClient::from_sink("", BufferedUnixMetricSink::with_capacity(&path, sock, case.cap))
            }
            StressSink::Udp => {
                let rx = UdpSocket::bind("127.0.0.1:0").unwrap();
                let addr = rx.local_addr().unwrap();
                let _ = rx.set_read_timeout(Some(Duration::from_millis(20)));
                let d = datagrams.clone();
                let st = stop.clone();
                reader = Some(std::thread::spawn(move || {
                    let mut buf = vec![0u8; 65536];
                    loop {
                        match rx.recv(&mut buf) {
                            Ok(n) => d.lock().unwrap().push(buf[..n].to_vec()),
                            Err(_) => {
                                if st.load(Ordering::Acquire) {
                                    break;
                                }
                            }
                        }
                    }
                }));
                let sock = UdpSocket::bind("127.0.0.1:0").unwrap();
                StatsdClient::from_sink("", BufferedUdpMetricSink::with_capacity(addr, sock, case.cap).unwrap())
            }
        };
        let client = Arc::new(client);
        // flush markers (spy only; nobody consumes the channel during the run, so its
        // length is the number of messages written so far): (thread, last acked seq, len)
        let markers: Arc<Mutex<Vec<(usize, i64, usize)>>> = Arc::new(Mutex::new(Vec::new()));
        let spy_len = if case.sink == StressSink::Spy { spy_rx.clone() } else { None };
        // ---- producers (their first operations are released together)
        let start = Arc::new(std::sync::Barrier::new(case.threads as usize));
        let mut joins = Vec::new();
        for t in 0..case.threads as usize {
            let client = client.clone();
            let n = case.per_thread as usize;
            let fe = case.flush_every as usize;
            let pat = util::mix(case.yields, t as u64 + 1);
            let markers = markers.clone();
            let spy_len = spy_len.clone();
            let start = start.clone();
            joins.push(std::thread::spawn(move || {
                let _ = util::catch(|| ());
                start.wait();
                let mut acked: Vec<String> = Vec::new();
                let mut errors: Vec<String> = Vec::new();
                let mut panics: Vec<String> = Vec::new();
                for i in 0..n {
                    let key = format!("t{}.s{}", t, i);
                    match util::catch(|| client.count(key.as_str(), 1i64)) {
                        Ok(Ok(m)) => acked.push(m.as_metric_str().to_string()),
                        Ok(Err(e)) => errors.push(format!("emit of {} failed: {}", key, e)),
                        Err(p) => panics.push(format!("emit panicked: {}", p)),
                    }
                    if fe > 0 && i % fe == fe - 1 {
                        match util::catch(|| client.flush()) {
                            Ok(Ok(())) => {
                                if let Some(rx) = &spy_len {
                                    // everything this thread emitted so far must be out now
                                    let last = acked.len() as i64 - 1;
                                    let _ = last;
                                    markers.lock().unwrap().push((t, i as i64, rx.len()));
                                }
                            }
                            Ok(Err(e)) => errors.push(format!("flush failed: {}", e)),
                            Err(p) => panics.push(format!("flush panicked: {}", p)),
                        }
                    }
                    if (pat >> (i % 64)) & 1 == 1 {
                        std::thread::yield_now();
                    }
                }
                (acked, errors, panics)
            }));
        }
        if case.sink == StressSink::UnixBlockedReceiver {
            // let the senders pile up behind the one blocked in sendto, then drain
            std::thread::sleep(Duration::from_millis(15));
            hold.store(false, Ordering::Release);
        }
        let mut acked: Vec<Vec<String>> = Vec::new();
        let mut errors: Vec<String> = Vec::new();
        let mut panics: Vec<String> = Vec::new();
        for j in joins {
            match j.join() {
                Ok((a, e, p)) => {
                    acked.push(a);
                    errors.extend(e);
                    panics.extend(p);
                }
                Err(_) => panics.push("producer thread panicked".into()),
            }
        }
        // final drop of the shared client flushes the rest
        match Arc::try_unwrap(client) {
            Ok(c) => {
                if queue_clones.is_empty() {
                    drop(c)
                } else {
                    // the last handles of the queuing sink (the client's and the clones) go away on
                    // different threads at the same moment
                    // spin gate (tighter than a Barrier): every thread announces itself, then all spin on one flag
                    let n = queue_clones.len() + 1;
                    let ready = Arc::new(std::sync::atomic::AtomicUsize::new(0));
                    let go = Arc::new(AtomicBool::new(false));
                    let mut hs = Vec::new();
                    let (r0, g0) = (ready.clone(), go.clone());
                    hs.push(std::thread::spawn(move || {
                        r0.fetch_add(1, Ordering::SeqCst);
                        while !g0.load(Ordering::Acquire) {
                            std::hint::spin_loop();
                        }
                        drop(c)
                    }));
                    for q in queue_clones.drain(..) {
                        let (r, g) = (ready.clone(), go.clone());
                        hs.push(std::thread::spawn(move || {
                            r.fetch_add(1, Ordering::SeqCst);
                            while !g.load(Ordering::Acquire) {
                                std::hint::spin_loop();
                            }
                            drop(q)
                        }));
                    }
                    while ready.load(Ordering::SeqCst) < n {
                        std::thread::yield_now();
                    }
                    go.store(true, Ordering::Release);
                    for h in hs {
                        if h.join().is_err() {
                            panics.push("dropping a handle of the queuing sink panicked".into());
                        }
                    }
                }
            }
            Err(_) => panics.push("client still shared after join".into()),
        }
        drop(queue_clones);
        if matches!(case.sink, StressSink::QueuedSpy | StressSink::QueuedSpyBounded) {
            // the queue drains in the background; the wrapped buffered sink is dropped (and flushed) last
            let deadline = std::time::Instant::now() + w;
            while released.load(Ordering::SeqCst) == 0 && std::time::Instant::now() < deadline {
                std::thread::sleep(Duration::from_micros(200));
            }
            if released.load(Ordering::SeqCst) == 0 {
                panics.push("the queuing sink did not release the wrapped buffered sink within W after the client was dropped".into());
            }
        }
        // ---- collect
        let stream: Vec<Vec<u8>> = if let Some(rx) = spy_rx {
            let mut v = Vec::new();
            while let Ok(m) = rx.try_recv() {
                v.push(m);
            }
            v
        } else {
            // wait until the expected number of lines has arrived (or W)
            let want: usize = acked.iter().map(|a| a.len()).sum();
            let deadline = std::time::Instant::now() + if case.sink == StressSink::Udp { Duration::from_millis(300) } else { w };
            loop {
                let have: usize = datagrams.lock().unwrap().iter().map(|d| d.iter().filter(|b| **b == b'\n').count()).sum();
                if have >= want || std::time::Instant::now() >= deadline {
                    break;
                }
                std::thread::sleep(Duration::from_millis(1));
            }
            stop.store(true, Ordering::Release);
            if let Some(r) = reader {
                let _ = r.join();
            }
            let v = datagrams.lock().unwrap().clone();
            v
        };
        // ---- judge
        let spurious_errors = !errors.is_empty();
        let mut bad: Vec<String> = panics;
        if self.judge_errors {
            bad.extend(errors.iter().map(|e| format!("{} although the underlying channel/socket never failed", e)));
        }
        let mut seen: HashMap<&str, usize> = HashMap::new();
        let mut last_seq: Vec<i64> = vec![-1; case.threads as usize];
        let mut mixed = 0usize;
        for (di, d) in stream.iter().enumerate() {
            let text = match std::str::from_utf8(d) {
                Ok(t) => t,
                Err(_) => {
                    bad.push(format!("datagram #{} is not UTF-8", di));
                    continue;
                }
            };
            // the one legitimate exception (C05): a metric that cannot fit into an empty buffer together
            // with its terminator goes out alone, unmodified and without terminator
            let lone_oversized = !text.contains('\n') && text.len() + 1 > case.cap;
            if d.len() > case.cap && !lone_oversized {
                bad.push(format!("datagram #{} has {} bytes > capacity {}", di, d.len(), case.cap));
            }
            if !text.ends_with('\n') && !lone_oversized {
                bad.push(format!(
                    "datagram #{} does not end with the terminator although its {} bytes (+1) fit into capacity {}: '{}'",
                    di,
                    text.len(),
                    case.cap,
                    text.escape_default()
                ));
            }
            let mut threads_here = std::collections::HashSet::new();
            for line in text.split_terminator('\n') {
                // t{t}.s{i}:1|c
                let parsed = line
                    .strip_prefix('t')
                    .and_then(|r| r.split_once(".s"))
                    .and_then(|(t, r)| r.strip_suffix(":1|c").map(|s| (t, s)))
                    .and_then(|(t, s)| Some((t.parse::<usize>().ok()?, s.parse::<i64>().ok()?)));
                match parsed {
                    Some((t, s)) if t < last_seq.len() => {
                        threads_here.insert(t);
                        // (C12: "each thread's *buffered* metrics leave in program order" - a metric too large
                        // for the buffer is written during its own emit and may overtake buffered ones)
                        if case.sink != StressSink::Udp && !self.framing_only && line.len() + 1 <= case.cap {
                            if s <= last_seq[t] {
                                bad.push(format!("thread {}'s metric #{} left after its metric #{} (program order violated)", t, s, last_seq[t]));
                            }
                            last_seq[t] = s;
                        }
                    }
                    _ => bad.push(format!("datagram #{} contains a partial or foreign line: '{}'", di, line.escape_default())),
                }
            }
            if threads_here.len() >= 2 {
                mixed += 1;
            }
            for line in text.split_terminator('\n') {
                *seen.entry(line).or_insert(0) += 1;
            }
            if bad.len() > 5 {
                break;
            }
        }
        if self.greedy_only {
            bad.retain(|b| b.contains("panicked"));
            let lmax = acked.iter().flatten().map(|l| l.len()).max().unwrap_or(0);
            let under: Vec<usize> = stream.iter().map(|d| d.len()).filter(|n| n + lmax + 1 <= case.cap).collect();
            // at most one datagram (the remainder written when the client is dropped) may have had
            // room for another line: every other one was sent because the next line did not fit
            if case.flush_every == 0 && under.len() > 1 {
                bad.push(format!(
                    "{} of {} datagrams were sent although even the longest line ({} bytes + terminator) still fitted into capacity {} (sizes e.g. {:?}); without explicit flushes at most the final one may be under-filled",
                    under.len(),
                    stream.len(),
                    lmax,
                    case.cap,
                    &under[..under.len().min(5)]
                ));
            }
        }
        // flush markers: when a thread's flush returned Ok, its earlier metrics had been written
        if case.sink == StressSink::Spy && bad.is_empty() && !self.framing_only && !self.greedy_only {
            let mut pos: HashMap<&str, usize> = HashMap::new();
            for (di, d) in stream.iter().enumerate() {
                if let Ok(text) = std::str::from_utf8(d) {
                    for line in text.split_terminator('\n') {
                        pos.entry(line).or_insert(di);
                    }
                }
            }
            let acked_sets: Vec<std::collections::HashSet<&str>> = acked.iter().map(|v| v.iter().map(|s| s.as_str()).collect()).collect();
            'm: for (t, upto, len) in markers.lock().unwrap().iter() {
                for i in 0..=*upto {
                    let line = format!("t{}.s{}:1|c", t, i);
                    if !acked_sets[*t].contains(line.as_str()) {
                        continue;
                    }
                    match pos.get(line.as_str()) {
                        Some(p) if *p < *len => {}
                        other => {
                            bad.push(format!(
                                "thread {}: flush() returned Ok when {} datagrams had been written, but its earlier acknowledged metric '{}' is in datagram {:?}: flush reported success without writing it",
                                t, len, line, other
                            ));
                            break 'm;
                        }
                    }
                }
            }
        }
        for a in acked.iter().flatten() {
            if self.framing_only || self.greedy_only {
                break;
            }
            match seen.get(a.as_str()).copied().unwrap_or(0) {
                1 => {}
                0 => {
                    if case.sink != StressSink::Udp {
                        bad.push(format!("acknowledged metric '{}' never reached the socket", a));
                    }
                }
                n => bad.push(format!("metric '{}' was written {} times", a, n)),
            }
            if bad.len() > 5 {
                break;
            }
        }
        let mut classes = Vec::new();
        if mixed > 0 {
            classes.push("datagrams carrying lines of >=2 threads (lock contended)");
        }
        if spurious_errors {
            classes.push("an emit/flush returned an error although the socket never failed (judged by C07)");
        }
        classes.push(match case.sink {
            StressSink::Spy => "spy channel",
            StressSink::QueuedSpy => "client over queuing sink over buffered spy sink",
            StressSink::QueuedSpyBounded => "client over a small bounded queuing sink (refusals) over buffered spy sink",
            StressSink::Unix => "unix socket",
            StressSink::Udp => "udp socket (order and loss not judged)",
            StressSink::UnixBlockedReceiver => "unix socket, sender blocked inside the critical section",
        });
        Outcome {
            verdict: match bad.first() {
                None => Ok(()),
                Some(b) => Err(b.clone()),
            },
            nontrivial: mixed > 0,
            fingerprint: util::hash_json(case),
            classes,
        }
    }
}
