//! C18: controlled scheduler over the cfg(cadence_verif) shim + write-once
//! register spec + vector-clock race checker (DESIGN §2.4).

use crate::driver::{Campaign, Ctx, Outcome, Tier};
use crate::util;
use cadence_macros::verif_shim::{self, Access, Event, Tracer};
use cadence_macros::SingletonHolder;
use proptest::prelude::*;
use serde::{Deserialize, Serialize};
use std::sync::atomic::Ordering;
use std::sync::{Arc, Condvar, Mutex};
use std::time::{Duration, Instant};

#[derive(Serialize, Deserialize, Clone, Copy, Debug, PartialEq, Eq, Hash)]
pub enum POp {
    Set,
    Get,
    IsSet,
}

#[derive(Serialize, Deserialize, Clone, Debug, PartialEq, Eq, Hash)]
pub struct SchedCase {
    /// one program per thread
    pub programs: Vec<Vec<POp>>,
    /// choice among the enabled (parked) threads at every step, taken modulo
    /// their number; past the end the lowest thread runs
    pub schedule: Vec<u8>,
    /// bit k set: the k-th compare_exchange_weak of the run fails spuriously
    #[serde(default)]
    pub spurious: u8,
}

#[derive(Default)]
pub struct Payload {
    pub id: u64,
    pub check: u64,
}

#[derive(Clone, Debug, PartialEq)]
pub enum Res {
    Unit,
    Bool(bool),
    /// (Arc pointer, payload id, payload intact)
    Got(Option<(usize, u64, bool)>),
}

#[derive(Clone, Debug)]
pub enum TEv {
    CallStart { t: usize, idx: usize, op: POp },
    CallEnd { t: usize, idx: usize, res: Res },
    Atomic { t: usize, addr: usize, access: Access, result: Option<Result<usize, usize>> },
    CellGet { t: usize, addr: usize },
    CellAccess { t: usize, addr: usize, write: bool },
}

#[derive(Clone, Copy, PartialEq, Eq, Debug)]
enum Status {
    NotStarted,
    Running,
    Parked,
    Done,
}

struct Ctl {
    status: Vec<Status>,
    turn: Option<usize>,
    trace: Vec<TEv>,
    pending_cell: Vec<Option<(usize, Vec<u8>)>>,
    abort: bool,
    spurious_mask: u8,
    weak_cas_seen: u32,
}

struct Shared {
    m: Mutex<Ctl>,
    cv: Condvar,
}

impl Shared {
    fn lock(&self) -> std::sync::MutexGuard<'_, Ctl> {
        match self.m.lock() {
            Ok(g) => g,
            Err(p) => p.into_inner(),
        }
    }

    /// classify the cell access that followed the last `UnsafeCell::get` of thread t
    fn classify(g: &mut Ctl, t: usize) {
        if let Some((addr, before)) = g.pending_cell[t].take() {
            // all other threads are parked: reading the bytes is race-free
            let now: Vec<u8> = unsafe { std::slice::from_raw_parts(addr as *const u8, before.len()) }.to_vec();
            g.trace.push(TEv::CellAccess {
                t,
                addr,
                write: now != before,
            });
        }
    }

    /// scheduling point: park until the controller gives this thread the turn
    fn park(&self, t: usize) {
        let mut g = self.lock();
        Self::classify(&mut g, t);
        g.status[t] = Status::Parked;
        self.cv.notify_all();
        while g.turn != Some(t) && !g.abort {
            g = match self.cv.wait(g) {
                Ok(x) => x,
                Err(p) => p.into_inner(),
            };
        }
        if g.turn == Some(t) {
            g.turn = None;
        }
        g.status[t] = Status::Running;
    }
}

struct ThreadTracer {
    shared: Arc<Shared>,
    t: usize,
}

impl Tracer for ThreadTracer {
    fn before(&self, _ev: &Event) {
        self.shared.park(self.t);
    }
    fn fail_weak_spuriously(&self, _ev: &Event) -> bool {
        let mut g = self.shared.lock();
        let k = g.weak_cas_seen;
        g.weak_cas_seen += 1;
        k < 8 && (g.spurious_mask >> k) & 1 == 1
    }
    fn after(&self, ev: &Event) {
        let mut g = self.shared.lock();
        match ev.access {
            Access::CellGet { size } => {
                let snap: Vec<u8> = unsafe { std::slice::from_raw_parts(ev.addr as *const u8, size) }.to_vec();
                g.trace.push(TEv::CellGet { t: self.t, addr: ev.addr });
                g.pending_cell[self.t] = Some((ev.addr, snap));
            }
            access => g.trace.push(TEv::Atomic {
                t: self.t,
                addr: ev.addr,
                access,
                result: ev.result,
            }),
        }
    }
}

type Job = Box<dyn FnOnce() -> Result<(), String> + Send>;

/// persistent worker threads per calling thread (thread creation serialises on
/// the process's address-space lock, so spawning per schedule does not scale)
struct Pool {
    workers: Vec<crossbeam_channel::Sender<(Job, crossbeam_channel::Sender<Result<(), String>>)>>,
}

thread_local! {
    static POOL: std::cell::RefCell<Option<Pool>> = const { std::cell::RefCell::new(None) };
}

fn pool_submit(t: usize, job: Job) -> crossbeam_channel::Receiver<Result<(), String>> {
    let (dtx, drx) = crossbeam_channel::bounded(1);
    POOL.with(|p| {
        let mut p = p.borrow_mut();
        let pool = p.get_or_insert_with(|| Pool { workers: Vec::new() });
        while pool.workers.len() <= t {
            let (tx, rx) = crossbeam_channel::unbounded::<(Job, crossbeam_channel::Sender<Result<(), String>>)>();
            std::thread::Builder::new()
                .name("verif-sched-worker".into())
                .spawn(move || {
                    while let Ok((job, done)) = rx.recv() {
                        let r = job();
                        let _ = done.send(r);
                    }
                })
                .expect("spawn sched worker");
            pool.workers.push(tx);
        }
        let _ = pool.workers[t].send((job, dtx));
    });
    drx
}

pub struct RunResult {
    pub trace: Vec<TEv>,
    /// number of enabled threads at each step (for DFS)
    pub enabled: Vec<usize>,
    /// choices actually taken
    pub taken: Vec<usize>,
    pub final_get: Res,
    pub final_is_set: bool,
    pub aborted: Option<String>,
    pub panicked: Option<String>,
}

fn describe(a: &Option<Arc<Payload>>) -> Res {
    Res::Got(a.as_ref().map(|p| (Arc::as_ptr(p) as usize, p.id, p.check == !p.id)))
}

/// Execute the programs under the given schedule on a fresh holder.
pub fn run_schedule(programs: &[Vec<POp>], schedule: &[usize], step_limit: usize, w: Duration) -> RunResult {
    run_schedule_ex(programs, schedule, 0, step_limit, w)
}

pub fn run_schedule_ex(programs: &[Vec<POp>], schedule: &[usize], spurious: u8, step_limit: usize, w: Duration) -> RunResult {
    let n = programs.len();
    // both public ways of making an empty holder (`new()` and `Default`), chosen by the programs' shape
    let ops_total: usize = programs.iter().map(|p| p.len()).sum();
    let holder: Arc<SingletonHolder<Payload>> = Arc::new(if ops_total % 2 == 1 { SingletonHolder::default() } else { SingletonHolder::new() });
    let shared = Arc::new(Shared {
        m: Mutex::new(Ctl {
            status: vec![Status::NotStarted; n],
            turn: None,
            trace: Vec::new(),
            pending_cell: vec![None; n],
            abort: false,
            spurious_mask: spurious,
            weak_cas_seen: 0,
        }),
        cv: Condvar::new(),
    });
    let mut enabled_log = Vec::new();
    let mut taken = Vec::new();
    let mut aborted = None;
    let mut panicked = None;
    {
        let mut dones = Vec::new();
        for (t, prog) in programs.iter().enumerate() {
            let shared = shared.clone();
            let holder = holder.clone();
            let prog = prog.clone();
            dones.push(pool_submit(
                t,
                Box::new(move || {
                    verif_shim::install_tracer(Some(Box::new(ThreadTracer { shared: shared.clone(), t })));
                    let r = util::catch(|| {
                        for (idx, op) in prog.iter().enumerate() {
                            // scheduling point at the start of every call
                            shared.park(t);
                            shared.lock().trace.push(TEv::CallStart { t, idx, op: *op });
                            let res = match op {
                                POp::Set => {
                                    let id = (t as u64 + 1) * 100 + idx as u64;
                                    if (t + idx) % 2 == 1 {
                                        // the same call made from a destructor while the thread is unwinding
                                        // (a scope guard that installs a default): it must behave alike
                                        struct SetOnDrop<'a>(&'a SingletonHolder<Payload>, u64);
                                        impl<'a> Drop for SetOnDrop<'a> {
                                            fn drop(&mut self) {
                                                self.0.set(Payload { id: self.1, check: !self.1 });
                                            }
                                        }
                                        let h: &SingletonHolder<Payload> = &holder;
                                        let _ = crate::util::catch(move || {
                                            let _g = SetOnDrop(h, id);
                                            panic!("{} (set is called while unwinding)", crate::util::HARNESS_PANIC);
                                        });
                                    } else {
                                        holder.set(Payload { id, check: !id });
                                    }
                                    Res::Unit
                                }
                                POp::Get => describe(&holder.get()),
                                POp::IsSet => Res::Bool(holder.is_set()),
                            };
                            let mut g = shared.lock();
                            Shared::classify(&mut g, t);
                            g.trace.push(TEv::CallEnd { t, idx, res });
                        }
                    });
                    verif_shim::install_tracer(None);
                    let mut g = shared.lock();
                    Shared::classify(&mut g, t);
                    g.status[t] = Status::Done;
                    shared.cv.notify_all();
                    drop(g);
                    drop(holder);
                    r
                }),
            ));
        }
        // controller
        let mut step = 0usize;
        loop {
            let mut g = shared.lock();
            let deadline = Instant::now() + w;
            loop {
                let busy = g.status.iter().any(|s| matches!(s, Status::Running | Status::NotStarted)) || g.turn.is_some();
                if !busy {
                    break;
                }
                let now = Instant::now();
                if now >= deadline {
                    aborted = Some("a thread did not reach its next scheduling point within W".to_string());
                    break;
                }
                let (ng, _) = match shared.cv.wait_timeout(g, deadline - now) {
                    Ok(x) => x,
                    Err(p) => p.into_inner(),
                };
                g = ng;
            }
            if aborted.is_some() {
                g.abort = true;
                shared.cv.notify_all();
                break;
            }
            let enabled: Vec<usize> = g.status.iter().enumerate().filter(|(_, s)| **s == Status::Parked).map(|(i, _)| i).collect();
            if enabled.is_empty() {
                break;
            }
            if step >= step_limit {
                aborted = Some(format!("step limit {} reached", step_limit));
                g.abort = true;
                shared.cv.notify_all();
                break;
            }
            let c = schedule.get(step).copied().unwrap_or(0) % enabled.len();
            enabled_log.push(enabled.len());
            taken.push(c);
            let t = enabled[c];
            g.turn = Some(t);
            g.status[t] = Status::Running;
            shared.cv.notify_all();
            drop(g);
            step += 1;
        }
        for d in dones {
            match d.recv_timeout(w) {
                Ok(Ok(())) => {}
                Ok(Err(p)) => panicked = Some(p),
                Err(_) => {
                    aborted = Some("a worker did not finish its program within W".into());
                    // this pool is unusable now: start a fresh one next time
                    POOL.with(|p| *p.borrow_mut() = None);
                }
            }
        }
    }
    // sequential reads after join
    let final_get = describe(&holder.get());
    let final_is_set = holder.is_set();
    let trace = std::mem::take(&mut shared.lock().trace);
    RunResult {
        trace,
        enabled: enabled_log,
        taken,
        final_get,
        final_is_set,
        aborted,
        panicked,
    }
}

// ---------------------------------------------------------------------------
// oracle

fn has_acquire(o: Ordering) -> bool {
    matches!(o, Ordering::Acquire | Ordering::AcqRel | Ordering::SeqCst)
}

fn has_release(o: Ordering) -> bool {
    matches!(o, Ordering::Release | Ordering::AcqRel | Ordering::SeqCst)
}

type VC = Vec<u64>;

fn join(a: &mut VC, b: &VC) {
    for (x, y) in a.iter_mut().zip(b.iter()) {
        if *y > *x {
            *x = *y;
        }
    }
}

#[derive(Default, Debug, Clone)]
pub struct SchedStats {
    pub racing_setters: bool,
    pub reader_in_loading_window: bool,
    pub cell_reads: usize,
    pub cell_writes: usize,
    pub steps: usize,
}

pub fn judge(programs: &[Vec<POp>], run: &RunResult) -> (Vec<String>, SchedStats) {
    let mut bad = Vec::new();
    let mut st = SchedStats::default();
    let n = programs.len();
    st.steps = run.taken.len();
    if let Some(p) = &run.panicked {
        bad.push(format!("a call panicked: {}", p));
        return (bad, st);
    }

    // ---- (6) happens-before on the cell
    let mut vc: Vec<VC> = (0..n).map(|_| vec![0u64; n]).collect();
    let mut rel: std::collections::HashMap<usize, Option<VC>> = std::collections::HashMap::new();
    // cell: last write (thread, clock), reads since (thread, clock)
    let mut last_write: std::collections::HashMap<usize, (usize, u64)> = std::collections::HashMap::new();
    let mut reads: std::collections::HashMap<usize, Vec<(usize, u64)>> = std::collections::HashMap::new();
    let mut loading_since: Option<usize> = None; // trace position of the winning CAS
    let mut complete_at: Option<usize> = None;
    let mut cas_attempts = 0;
    for (pos, ev) in run.trace.iter().enumerate() {
        match ev {
            TEv::Atomic { t, addr, access, result } => {
                vc[*t][*t] += 1;
                let slot = rel.entry(*addr).or_insert(None);
                match access {
                    Access::Load { order } => {
                        if has_acquire(*order) {
                            if let Some(r) = slot.as_ref() {
                                let r = r.clone();
                                join(&mut vc[*t], &r);
                            }
                        }
                        if loading_since.is_some() && complete_at.is_none() {
                            st.reader_in_loading_window = true;
                        }
                    }
                    Access::Store { order, value } => {
                        if has_release(*order) {
                            *slot = Some(vc[*t].clone());
                        } else {
                            *slot = None;
                        }
                        if *value == 2 && complete_at.is_none() {
                            complete_at = Some(pos);
                        }
                    }
                    Access::CompareExchange { success, failure, .. } => {
                        cas_attempts += 1;
                        match result {
                            Some(Ok(_)) => {
                                if has_acquire(*success) {
                                    if let Some(r) = slot.as_ref() {
                                        let r = r.clone();
                                        join(&mut vc[*t], &r);
                                    }
                                }
                                if has_release(*success) {
                                    let mut nr = slot.clone().unwrap_or_else(|| vec![0; n]);
                                    join(&mut nr, &vc[*t]);
                                    *slot = Some(nr);
                                }
                                if loading_since.is_none() {
                                    loading_since = Some(pos);
                                }
                            }
                            _ => {
                                if has_acquire(*failure) {
                                    if let Some(r) = slot.as_ref() {
                                        let r = r.clone();
                                        join(&mut vc[*t], &r);
                                    }
                                }
                            }
                        }
                    }
                    Access::Rmw { order, .. } => {
                        if has_acquire(*order) {
                            if let Some(r) = slot.as_ref() {
                                let r = r.clone();
                                join(&mut vc[*t], &r);
                            }
                        }
                        if has_release(*order) {
                            let mut nr = slot.clone().unwrap_or_else(|| vec![0; n]);
                            join(&mut nr, &vc[*t]);
                            *slot = Some(nr);
                        }
                    }
                    Access::CellGet { .. } | Access::Exclusive => {}
                }
            }
            TEv::CellGet { .. } => {}
            TEv::CellAccess { t, addr, write } => {
                vc[*t][*t] += 1;
                let my = vc[*t].clone();
                if let Some((wt, wc)) = last_write.get(addr) {
                    if *wt != *t && my[*wt] < *wc {
                        bad.push(format!(
                            "data race on the cell: thread {} {} it (trace #{}) without happening-after the write by thread {}",
                            t,
                            if *write { "writes" } else { "reads" },
                            pos,
                            wt
                        ));
                    }
                }
                if *write {
                    st.cell_writes += 1;
                    for (rt, rc) in reads.get(addr).cloned().unwrap_or_default() {
                        if rt != *t && my[rt] < rc {
                            bad.push(format!(
                                "data race on the cell: thread {} writes it (trace #{}) without happening-after the read by thread {}",
                                t, pos, rt
                            ));
                        }
                    }
                    last_write.insert(*addr, (*t, my[*t]));
                    reads.remove(addr);
                } else {
                    st.cell_reads += 1;
                    reads.entry(*addr).or_default().push((*t, my[*t]));
                }
            }
            TEv::CallStart { .. } | TEv::CallEnd { .. } => {}
        }
    }
    st.racing_setters = cas_attempts >= 2 && programs.iter().filter(|p| p.contains(&POp::Set)).count() >= 2;

    // ---- sequential write-once register spec with real-time order
    #[derive(Debug, Clone)]
    struct Call {
        t: usize,
        op: POp,
        start: usize,
        end: usize,
        res: Res,
        id: u64,
    }
    let mut calls: Vec<Call> = Vec::new();
    let mut open: std::collections::HashMap<(usize, usize), (usize, POp)> = std::collections::HashMap::new();
    for (pos, ev) in run.trace.iter().enumerate() {
        match ev {
            TEv::CallStart { t, idx, op } => {
                open.insert((*t, *idx), (pos, *op));
            }
            TEv::CallEnd { t, idx, res } => {
                if let Some((start, op)) = open.remove(&(*t, *idx)) {
                    calls.push(Call {
                        t: *t,
                        op,
                        start,
                        end: pos,
                        res: res.clone(),
                        id: (*t as u64 + 1) * 100 + *idx as u64,
                    });
                }
            }
            _ => {}
        }
    }
    let sets: Vec<&Call> = calls.iter().filter(|c| c.op == POp::Set).collect();
    let set_ids: Vec<u64> = sets.iter().map(|c| c.id).collect();
    // (1) all Some results are the same instance, intact, value of one set call
    let mut somes: Vec<(usize, u64, bool)> = Vec::new();
    for c in &calls {
        if let Res::Got(Some(x)) = &c.res {
            somes.push(*x);
        }
    }
    if let Res::Got(Some(x)) = &run.final_get {
        somes.push(*x);
    }
    for s in &somes {
        if !s.2 {
            bad.push(format!("a get returned a payload that is not fully constructed (id {})", s.1));
        }
        if !set_ids.contains(&s.1) {
            bad.push(format!("a get returned a value (id {}) that no set call supplied", s.1));
        }
        if s.0 != somes[0].0 || s.1 != somes[0].1 {
            bad.push(format!("two gets returned different instances: id {} @{:#x} vs id {} @{:#x}", somes[0].1, somes[0].0, s.1, s.0));
        }
    }
    // (2) final sequential get
    let any_set_completed = !sets.is_empty();
    match (&run.final_get, any_set_completed) {
        (Res::Got(None), true) => bad.push("after all threads joined a set had been called but get() reports 'not set'".into()),
        (Res::Got(Some(_)), false) => bad.push("get() returns a value although set was never called".into()),
        _ => {}
    }
    if run.final_is_set != any_set_completed {
        bad.push(format!("after join is_set() = {} but set was called: {}", run.final_is_set, any_set_completed));
    }
    let winner_id = match &run.final_get {
        Res::Got(Some(x)) => Some(x.1),
        _ => None,
    };
    let winner: Option<&Call> = winner_id.and_then(|id| sets.iter().copied().find(|c| c.id == id));
    if let Some(wc) = winner {
        // (4) a set that returned before the winner started cannot have lost
        for s in &sets {
            if s.id != wc.id && s.end < wc.start {
                bad.push(format!(
                    "set (thread {}) returned before the winning set (thread {}) started, yet it was ignored: the first set must win",
                    s.t, wc.t
                ));
            }
        }
        for c in &calls {
            let positive = match &c.res {
                Res::Got(Some(_)) | Res::Bool(true) => Some(true),
                Res::Got(None) | Res::Bool(false) => Some(false),
                Res::Unit => None,
            };
            match positive {
                // (3) a read that starts after the winning set returned reports it
                Some(false) if c.start > wc.end => bad.push(format!(
                    "{:?} on thread {} started after the winning set had returned but reports 'not set'",
                    c.op, c.t
                )),
                // (5) a read that finished before the winner started reports unset
                Some(true) if c.end < wc.start => bad.push(format!("{:?} on thread {} reports 'set' before the winning set started", c.op, c.t)),
                _ => {}
            }
        }
    }
    // reads that finished before ANY set started report unset
    if let Some(first_set_start) = sets.iter().map(|c| c.start).min() {
        for c in &calls {
            if c.end < first_set_start && matches!(c.res, Res::Got(Some(_)) | Res::Bool(true)) {
                bad.push(format!("{:?} on thread {} reports 'set' before any set started", c.op, c.t));
            }
        }
    } else {
        for c in &calls {
            if matches!(c.res, Res::Got(Some(_)) | Res::Bool(true)) {
                bad.push(format!("{:?} on thread {} reports 'set' although set is never called", c.op, c.t));
            }
        }
    }
    // once set, stays set (monotone in real time)
    for a in &calls {
        if matches!(a.res, Res::Got(Some(_)) | Res::Bool(true)) {
            for b in &calls {
                if b.start > a.end && matches!(b.res, Res::Got(None) | Res::Bool(false)) {
                    bad.push(format!(
                        "{:?} on thread {} reported 'set', a later {:?} on thread {} reports 'not set'",
                        a.op, a.t, b.op, b.t
                    ));
                }
            }
        }
    }
    bad.dedup();
    (bad, st)
}

// ---------------------------------------------------------------------------
// exhaustive exploration (stateless DFS over the choice tree)

pub struct Explored {
    pub schedules: u64,
    pub violation: Option<(SchedCase, String)>,
    pub nontrivial: u64,
    pub complete: bool,
}

pub fn explore(programs: &[Vec<POp>], max_schedules: u64, w: Duration) -> Explored {
    // first without spurious failures; if the code uses compare_exchange_weak at all,
    // every pattern of spurious failures over its first 3 weak CASes is explored too
    let first = explore_mask(programs, 0, max_schedules, w);
    if first.explored.violation.is_some() || !first.explored.complete || first.weak_cas == 0 {
        return first.explored;
    }
    let mut total = first.explored;
    let n = first.weak_cas.min(3);
    for mask in 1u8..(1 << n) {
        let e = explore_mask(programs, mask, max_schedules, w);
        total.schedules += e.explored.schedules;
        total.nontrivial += e.explored.nontrivial;
        total.complete &= e.explored.complete;
        if e.explored.violation.is_some() {
            total.violation = e.explored.violation;
            total.complete = false;
            return total;
        }
    }
    total
}

struct MaskExplored {
    explored: Explored,
    weak_cas: u32,
}

fn explore_mask(programs: &[Vec<POp>], mask: u8, max_schedules: u64, w: Duration) -> MaskExplored {
    let e = explore_inner(programs, mask, max_schedules, w);
    MaskExplored { weak_cas: e.1, explored: e.0 }
}

fn explore_inner(programs: &[Vec<POp>], mask: u8, max_schedules: u64, w: Duration) -> (Explored, u32) {
    let mut path: Vec<usize> = Vec::new();
    let mut count = 0u64;
    let mut nontrivial = 0u64;
    let mut weak_max = 0u32;
    loop {
        let run = run_schedule_ex(programs, &path, mask, 400, w);
        let weak_here = run
            .trace
            .iter()
            .filter(|e| matches!(e, TEv::Atomic { access: Access::CompareExchange { weak: true, .. }, .. }))
            .count() as u32;
        weak_max = weak_max.max(weak_here);
        count += 1;
        if let Some(a) = &run.aborted {
            util::mark_inconclusive(&format!("sched run aborted: {}", a));
            return (Explored {
                schedules: count,
                violation: None,
                nontrivial,
                complete: false,
            }, weak_max);
        }
        let (bad, st) = judge(programs, &run);
        if st.racing_setters || st.reader_in_loading_window {
            nontrivial += 1;
        }
        if let Some(b) = bad.first() {
            return (Explored {
                schedules: count,
                violation: Some((
                    SchedCase {
                        programs: programs.to_vec(),
                        schedule: run.taken.iter().map(|c| *c as u8).collect(),
                        spurious: mask,
                    },
                    b.clone(),
                )),
                nontrivial,
                complete: false,
            }, weak_max);
        }
        // next path
        let mut taken = run.taken.clone();
        let enabled = run.enabled.clone();
        let mut advanced = false;
        while let Some(c) = taken.pop() {
            let i = taken.len();
            if c + 1 < enabled[i] {
                taken.push(c + 1);
                advanced = true;
                break;
            }
        }
        if !advanced {
            return (Explored {
                schedules: count,
                violation: None,
                nontrivial,
                complete: true,
            }, weak_max);
        }
        path = taken;
        if count >= max_schedules {
            return (Explored {
                schedules: count,
                violation: None,
                nontrivial,
                complete: false,
            }, weak_max);
        }
    }
}

/// all programs (multisets of thread programs) with the given shape
pub fn all_programs(threads: usize, max_ops: usize) -> Vec<Vec<Vec<POp>>> {
    let ops = [POp::Set, POp::Get, POp::IsSet];
    let mut per_thread: Vec<Vec<POp>> = Vec::new();
    for len in 1..=max_ops {
        let total = ops.len().pow(len as u32);
        for code in 0..total {
            let mut c = code;
            per_thread.push(
                (0..len)
                    .map(|_| {
                        let o = ops[c % 3];
                        c /= 3;
                        o
                    })
                    .collect(),
            );
        }
    }
    // combinations with repetition (thread order is irrelevant by symmetry)
    let mut out = Vec::new();
    fn rec(per: &[Vec<POp>], start: usize, left: usize, cur: &mut Vec<Vec<POp>>, out: &mut Vec<Vec<Vec<POp>>>) {
        if left == 0 {
            // skip programs without any set together with only reads? keep all: reads-only must report unset
            out.push(cur.clone());
            return;
        }
        for i in start..per.len() {
            cur.push(per[i].clone());
            rec(per, i, left - 1, cur, out);
            cur.pop();
        }
    }
    rec(&per_thread, 0, threads, &mut Vec::new(), &mut out);
    out
}

// ---------------------------------------------------------------------------
// campaign over generated programs + schedules

pub struct SchedCampaign;

impl Campaign for SchedCampaign {
    type Case = SchedCase;
    fn name(&self) -> &'static str {
        "holder-schedules"
    }
    fn strategy(&self, _tier: Tier) -> BoxedStrategy<SchedCase> {
        let op = prop_oneof![3 => Just(POp::Set), 3 => Just(POp::Get), 2 => Just(POp::IsSet)];
        let prog = prop::collection::vec(op, 1..=3);
        (
            prop::collection::vec(prog, 2..=3),
            prop::collection::vec(any::<u8>(), 0..48),
            prop_oneof![3 => Just(0u8), 1 => any::<u8>()],
        )
            .prop_map(|(programs, schedule, spurious)| SchedCase { programs, schedule, spurious })
            .boxed()
    }
    fn check(&self, case: &SchedCase, ctx: &Ctx) -> Outcome {
        let sched: Vec<usize> = case.schedule.iter().map(|c| *c as usize).collect();
        let run = run_schedule_ex(&case.programs, &sched, case.spurious, 400, ctx.w());
        if let Some(a) = &run.aborted {
            util::mark_inconclusive(&format!("sched run aborted: {}", a));
            return Outcome::ok();
        }
        let (bad, st) = judge(&case.programs, &run);
        let mut classes = Vec::new();
        if st.racing_setters {
            classes.push("two setters race for the CAS");
        }
        if st.reader_in_loading_window {
            classes.push("reader overlaps the initialisation window");
        }
        Outcome {
            verdict: match bad.first() {
                None => Ok(()),
                Some(b) => Err(b.clone()),
            },
            nontrivial: st.racing_setters || st.reader_in_loading_window,
            fingerprint: util::hash_json(&(&case.programs, &run.taken)),
            classes,
        }
    }
}

/// bounded-exhaustive part: one case = one set of thread programs, all of whose
/// schedules are enumerated
pub struct ExhaustiveCampaign {
    pub schedules: std::sync::atomic::AtomicU64,
    pub nontrivial_schedules: std::sync::atomic::AtomicU64,
    pub incomplete: std::sync::atomic::AtomicU64,
    pub max_per_program: u64,
}

impl ExhaustiveCampaign {
    pub fn new(max_per_program: u64) -> Self {
        ExhaustiveCampaign {
            schedules: Default::default(),
            nontrivial_schedules: Default::default(),
            incomplete: Default::default(),
            max_per_program,
        }
    }
}

impl Campaign for ExhaustiveCampaign {
    type Case = SchedCase;
    fn name(&self) -> &'static str {
        "holder-exhaustive"
    }
    fn strategy(&self, _tier: Tier) -> BoxedStrategy<SchedCase> {
        Just(SchedCase {
            programs: vec![vec![POp::Set], vec![POp::Get]],
            schedule: vec![],
            spurious: 0,
        })
        .boxed()
    }
    fn check(&self, case: &SchedCase, ctx: &Ctx) -> Outcome {
        if ctx.replay && !case.schedule.is_empty() {
            // a stored failing schedule: run exactly that one
            return SchedCampaign.check(case, ctx);
        }
        let ex = explore(&case.programs, self.max_per_program, ctx.w());
        self.schedules.fetch_add(ex.schedules, Ordering::Relaxed);
        self.nontrivial_schedules.fetch_add(ex.nontrivial, Ordering::Relaxed);
        if !ex.complete && ex.violation.is_none() {
            self.incomplete.fetch_add(1, Ordering::Relaxed);
        }
        Outcome {
            verdict: match ex.violation {
                None => Ok(()),
                Some((c, why)) => Err(format!("schedule {:?} (spurious weak-CAS failures mask {:#b}): {}", c.schedule, c.spurious, why)),
            },
            nontrivial: ex.nontrivial > 0,
            fingerprint: util::hash_json(&case.programs),
            classes: vec![if ex.complete { "all schedules of this program enumerated" } else { "schedule budget reached" }],
        }
    }
}
