//! Small shared helpers: hashing, env, panic capture, token errors.

use std::any::Any;
use std::cell::RefCell;
use std::fmt;
use std::io;
use std::panic::{self, AssertUnwindSafe};
use std::sync::atomic::{AtomicBool, Ordering};
use std::sync::{Mutex, Once};

pub fn hash_bytes(b: &[u8]) -> u64 {
    // FNV-1a 64, then a finaliser; deterministic across processes
    let mut h: u64 = 0xcbf29ce484222325;
    for &x in b {
        h ^= x as u64;
        h = h.wrapping_mul(0x100000001b3);
    }
    mix(h, 0x9e3779b97f4a7c15)
}

pub fn hash_str(s: &str) -> u64 {
    hash_bytes(s.as_bytes())
}

pub fn hash_json<T: serde::Serialize>(v: &T) -> u64 {
    match serde_json::to_vec(v) {
        Ok(b) => hash_bytes(&b),
        Err(_) => 0,
    }
}

pub fn mix(a: u64, b: u64) -> u64 {
    let mut z = a ^ b.wrapping_mul(0x9e3779b97f4a7c15);
    z = (z ^ (z >> 30)).wrapping_mul(0xbf58476d1ce4e5b9);
    z = (z ^ (z >> 27)).wrapping_mul(0x94d049bb133111eb);
    z ^ (z >> 31)
}

pub fn env_u64(name: &str, default: u64) -> u64 {
    std::env::var(name).ok().and_then(|s| s.parse().ok()).unwrap_or(default)
}

static INCONCLUSIVE: AtomicBool = AtomicBool::new(false);
static INCONCLUSIVE_WHY: Mutex<Vec<String>> = Mutex::new(Vec::new());

pub fn mark_inconclusive(why: &str) {
    INCONCLUSIVE.store(true, Ordering::SeqCst);
    INCONCLUSIVE_WHY.lock().unwrap().push(why.to_string());
}

pub fn inconclusive() -> Option<Vec<String>> {
    if INCONCLUSIVE.load(Ordering::SeqCst) {
        Some(INCONCLUSIVE_WHY.lock().unwrap().clone())
    } else {
        None
    }
}

// ---------------------------------------------------------------------------
// panic capture

thread_local! {
    static LAST_PANIC: RefCell<Option<String>> = const { RefCell::new(None) };
}

static HOOK: Once = Once::new();

/// Marker contained in every panic message the harness injects on purpose.
pub const HARNESS_PANIC: &str = "verif-harness-injected-panic";

/// Install a panic hook that records the message + location in a thread local
/// and prints nothing (library panics are reported as violations with the
/// message; harness-injected panics are expected).
pub fn install_quiet_panic_hook() {
    HOOK.call_once(|| {
        let verbose = std::env::var("VERIF_PANIC_VERBOSE").is_ok();
        let default = panic::take_hook();
        panic::set_hook(Box::new(move |info| {
            let msg = if let Some(s) = info.payload().downcast_ref::<&str>() {
                (*s).to_string()
            } else if let Some(s) = info.payload().downcast_ref::<String>() {
                s.clone()
            } else {
                "<non-string panic payload>".to_string()
            };
            let loc = info
                .location()
                .map(|l| format!("{}:{}:{}", l.file(), l.line(), l.column()))
                .unwrap_or_default();
            LAST_PANIC.with(|p| *p.borrow_mut() = Some(format!("{} @ {}", msg, loc)));
            if verbose && !msg.contains(HARNESS_PANIC) {
                default(info);
            }
        }));
    });
}

pub fn payload_to_string(p: &(dyn Any + Send)) -> String {
    if let Some(s) = p.downcast_ref::<&str>() {
        (*s).to_string()
    } else if let Some(s) = p.downcast_ref::<String>() {
        s.clone()
    } else {
        "<non-string panic payload>".to_string()
    }
}

/// Run `f`, converting a panic into `Err(message @ location)`.
pub fn catch<R>(f: impl FnOnce() -> R) -> Result<R, String> {
    install_quiet_panic_hook();
    LAST_PANIC.with(|p| *p.borrow_mut() = None);
    match panic::catch_unwind(AssertUnwindSafe(f)) {
        Ok(r) => Ok(r),
        Err(payload) => {
            let from_hook = LAST_PANIC.with(|p| p.borrow_mut().take());
            Err(from_hook.unwrap_or_else(|| payload_to_string(&*payload)))
        }
    }
}

// ---------------------------------------------------------------------------
// token errors: an io::Error whose payload identifies the injected fault

#[derive(Debug, Clone, PartialEq, Eq)]
pub struct TokenErr(pub u64);

impl fmt::Display for TokenErr {
    fn fmt(&self, f: &mut fmt::Formatter<'_>) -> fmt::Result {
        write!(f, "verif-token-{}", self.0)
    }
}

impl std::error::Error for TokenErr {}

pub const IO_KINDS: &[io::ErrorKind] = &[
    io::ErrorKind::WouldBlock,
    io::ErrorKind::ConnectionRefused,
    io::ErrorKind::Other,
    io::ErrorKind::NotFound,
    io::ErrorKind::PermissionDenied,
    io::ErrorKind::BrokenPipe,
    io::ErrorKind::InvalidInput,
    io::ErrorKind::TimedOut,
    io::ErrorKind::WriteZero,
    io::ErrorKind::UnexpectedEof,
    io::ErrorKind::OutOfMemory,
    io::ErrorKind::AddrNotAvailable,
    io::ErrorKind::Interrupted,
];

/// index → kind; index is stored in cases so they serialise trivially
pub fn io_kind(idx: u8) -> io::ErrorKind {
    IO_KINDS[(idx as usize) % IO_KINDS.len()]
}

pub fn token_error(kind_idx: u8, token: u64) -> io::Error {
    io::Error::new(io_kind(kind_idx), TokenErr(token))
}

/// (kind, token) of an io::Error created by `token_error`
pub fn io_error_token(e: &io::Error) -> (io::ErrorKind, Option<u64>) {
    let tok = e.get_ref().and_then(|r| r.downcast_ref::<TokenErr>()).map(|t| t.0);
    (e.kind(), tok)
}

/// monotone index mapping (keeps proptest shrinking meaningful): maps a u16
/// selector onto 0..len
pub fn pick_idx(sel: u16, len: usize) -> usize {
    debug_assert!(len > 0);
    ((sel as usize) * len) >> 16
}
