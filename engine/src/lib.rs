//! verif_core: generators, interpreters, oracles and campaign drivers for the
//! property-based verification of cadence (see /verif/DESIGN.md).

pub mod api;
pub mod bytes;
pub mod driver;
pub mod fmt;
pub mod fuzzdec;
pub mod fuzzrun;
pub mod known;
pub mod macros_child;
pub mod props;
pub mod queue;
#[cfg(cadence_verif)]
pub mod sched;
pub mod sockets;
pub mod stress;
pub mod util;
pub mod writer;
