//! KNOWN_FINDINGS.txt: `known: property=<id> sig=<signature> <text>` lines name
//! genuine, unrepaired defects by the shape of the failing case; `fixed:` lines
//! are documentation only and suppress nothing. The file is never written at
//! run time.

use std::sync::OnceLock;

#[derive(Debug, Clone)]
pub struct Known {
    pub property: String,
    pub sig: String,
    pub text: String,
}

static KNOWN: OnceLock<Vec<Known>> = OnceLock::new();

pub fn path() -> String {
    std::env::var("VERIF_KNOWN_FINDINGS").unwrap_or_else(|_| "/verif/KNOWN_FINDINGS.txt".to_string())
}

pub fn load() -> &'static Vec<Known> {
    KNOWN.get_or_init(|| {
        let mut out = Vec::new();
        if let Ok(s) = std::fs::read_to_string(path()) {
            for line in s.lines() {
                let line = line.trim();
                if let Some(rest) = line.strip_prefix("known:") {
                    let mut property = String::new();
                    let mut sig = String::new();
                    let mut text = Vec::new();
                    for w in rest.split_whitespace() {
                        if let Some(p) = w.strip_prefix("property=") {
                            property = p.to_string();
                        } else if let Some(s) = w.strip_prefix("sig=") {
                            sig = s.to_string();
                        } else {
                            text.push(w);
                        }
                    }
                    if !property.is_empty() && !sig.is_empty() {
                        out.push(Known {
                            property,
                            sig,
                            text: text.join(" "),
                        });
                    }
                }
            }
        }
        out
    })
}

/// signature embedded in a violation message as `[sig=...]`
pub fn sig_of(msg: &str) -> Option<&str> {
    let start = msg.find("[sig=")? + 5;
    let end = msg[start..].find(']')? + start;
    Some(&msg[start..end])
}

pub fn is_known(property: &str, msg: &str) -> Option<&'static Known> {
    let sig = sig_of(msg)?;
    load().iter().find(|k| k.property == property && k.sig == sig)
}

static HITS: std::sync::Mutex<std::collections::BTreeMap<(String, String), u64>> = std::sync::Mutex::new(std::collections::BTreeMap::new());

/// Returns true (and counts the hit) when this violation message names a
/// known finding of the property: the case is then excluded from the search so
/// that the campaign goes on looking for anything else.
pub fn absorb(property: &str, msg: &str) -> bool {
    match is_known(property, msg) {
        Some(k) => {
            *HITS.lock().unwrap().entry((k.property.clone(), k.sig.clone())).or_insert(0) += 1;
            true
        }
        None => false,
    }
}

pub fn hits() -> Vec<(Known, u64)> {
    let h = HITS.lock().unwrap();
    load()
        .iter()
        .filter_map(|k| h.get(&(k.property.clone(), k.sig.clone())).map(|n| (k.clone(), *n)))
        .collect()
}
