//! Generic campaign driver: proptest `TestRunner` sharded over worker threads,
//! evidence accumulation, replay files, known-findings handling.

use proptest::strategy::{BoxedStrategy, Strategy};
use proptest::test_runner::{Config, RngSeed, TestCaseError, TestError, TestRunner};
use serde::de::DeserializeOwned;
use serde::Serialize;
use std::collections::{BTreeMap, HashSet};
use std::fmt::Debug;
use std::sync::atomic::{AtomicBool, Ordering};
use std::sync::{Arc, Mutex};
use std::time::Instant;

#[derive(Clone, Copy, Debug, PartialEq, Eq)]
pub enum Tier {
    Quick,
    Thorough,
}

impl Tier {
    pub fn name(self) -> &'static str {
        match self {
            Tier::Quick => "quick",
            Tier::Thorough => "thorough",
        }
    }
    pub fn pick<T>(self, q: T, t: T) -> T {
        match self {
            Tier::Quick => q,
            Tier::Thorough => t,
        }
    }
}

/// Result of judging one case.
#[derive(Debug, Clone)]
pub struct Outcome {
    /// `Err(reason)` is a violation of the property.
    pub verdict: Result<(), String>,
    /// non-trivial by the property's stated rule
    pub nontrivial: bool,
    /// fingerprint used to count *distinct* non-trivial cases
    pub fingerprint: u64,
    /// labels for the classification histogram
    pub classes: Vec<&'static str>,
}

impl Outcome {
    pub fn ok() -> Self {
        Outcome {
            verdict: Ok(()),
            nontrivial: false,
            fingerprint: 0,
            classes: Vec::new(),
        }
    }
}

/// Context handed to every check invocation.
#[derive(Clone, Debug)]
pub struct Ctx {
    pub property: &'static str,
    pub tier: Tier,
    pub seed: u64,
    /// liveness bound in ms used when the spec model says an event is due
    pub liveness_ms: u64,
    /// true while proptest is shrinking a failure (shorter liveness bound)
    pub shrinking: bool,
    /// strict replay mode
    pub replay: bool,
}

impl Ctx {
    pub fn new(property: &'static str, tier: Tier, seed: u64) -> Self {
        let liveness_ms = std::env::var("VERIF_LIVENESS_MS")
            .ok()
            .and_then(|s| s.parse().ok())
            .unwrap_or(4000);
        Ctx {
            property,
            tier,
            seed,
            liveness_ms,
            shrinking: false,
            replay: false,
        }
    }
    pub fn w(&self) -> std::time::Duration {
        let ms = if self.shrinking {
            (self.liveness_ms / 4).max(500)
        } else {
            self.liveness_ms
        };
        std::time::Duration::from_millis(ms)
    }
}

pub trait Campaign: Sync + Send {
    type Case: Clone + Debug + Serialize + DeserializeOwned + Send + 'static;
    /// name used in replay files
    fn name(&self) -> &'static str;
    fn strategy(&self, tier: Tier) -> BoxedStrategy<Self::Case>;
    fn check(&self, case: &Self::Case, ctx: &Ctx) -> Outcome;
    /// cap on shrink iterations (campaigns whose failures cost a liveness wait keep it small)
    fn max_shrink_iters(&self) -> u32 {
        400
    }
}

#[derive(Debug, Clone, Serialize)]
pub struct Violation {
    pub campaign: String,
    pub reason: String,
    pub case: serde_json::Value,
}

/// Evidence accumulator for one property run (possibly several campaigns).
pub struct Evidence {
    pub property: &'static str,
    pub level: &'static str,
    pub tier: Tier,
    pub seed: u64,
    pub rule: String,
    pub assumptions: Vec<String>,
    pub started: Instant,
    inner: Mutex<EvInner>,
}

#[derive(Default)]
struct EvInner {
    evaluations: u64,
    nontrivial_total: u64,
    distinct: HashSet<u64>,
    classes: BTreeMap<String, u64>,
    per_campaign: BTreeMap<String, (u64, u64)>,
    samples: Vec<serde_json::Value>,
    extra: BTreeMap<String, serde_json::Value>,
    exhaustive: Option<bool>,
    violations: Vec<Violation>,
    known_hits: BTreeMap<String, u64>,
}

impl Evidence {
    pub fn new(property: &'static str, level: &'static str, tier: Tier, seed: u64, rule: &str) -> Self {
        Evidence {
            property,
            level,
            tier,
            seed,
            rule: rule.to_string(),
            assumptions: Vec::new(),
            started: Instant::now(),
            inner: Mutex::new(EvInner::default()),
        }
    }

    pub fn assume(&mut self, s: &str) {
        self.assumptions.push(s.to_string());
    }

    pub fn record<C: Serialize>(&self, campaign: &str, case: &C, out: &Outcome) {
        let mut g = self.inner.lock().unwrap();
        g.evaluations += 1;
        let pc = g.per_campaign.entry(campaign.to_string()).or_insert((0, 0));
        pc.0 += 1;
        if out.nontrivial {
            pc.1 += 1;
        }
        for c in &out.classes {
            *g.classes.entry((*c).to_string()).or_insert(0) += 1;
        }
        if out.nontrivial {
            g.nontrivial_total += 1;
            // fingerprint is salted per campaign so that equal fingerprints of
            // different campaigns do not collapse
            let fp = out.fingerprint ^ crate::util::hash_str(campaign);
            let fresh = g.distinct.insert(fp);
            if fresh {
                // keep a few samples: per campaign the first 3 non-trivial ones
                let n_this = g
                    .samples
                    .iter()
                    .filter(|s| s.get("campaign").and_then(|c| c.as_str()) == Some(campaign))
                    .count();
                if n_this < 3 && g.samples.len() < 12 {
                    let v = serde_json::to_value(case).unwrap_or(serde_json::Value::Null);
                    g.samples.push(serde_json::json!({"campaign": campaign, "case": truncate_json(v)}));
                }
            }
        }
    }

    pub fn set_extra(&self, key: &str, v: serde_json::Value) {
        self.inner.lock().unwrap().extra.insert(key.to_string(), v);
    }

    pub fn add_extra_count(&self, key: &str, n: u64) {
        let mut g = self.inner.lock().unwrap();
        let e = g.extra.entry(key.to_string()).or_insert(serde_json::json!(0));
        let cur = e.as_u64().unwrap_or(0);
        *e = serde_json::json!(cur + n);
    }

    pub fn set_exhaustive(&self, b: bool) {
        let mut g = self.inner.lock().unwrap();
        g.exhaustive = Some(match g.exhaustive {
            None => b,
            Some(prev) => prev && b,
        });
    }

    pub fn add_violation(&self, v: Violation) {
        self.inner.lock().unwrap().violations.push(v);
    }

    pub fn known_hit(&self, sig: &str) {
        *self.inner.lock().unwrap().known_hits.entry(sig.to_string()).or_insert(0) += 1;
    }

    pub fn violations(&self) -> Vec<Violation> {
        self.inner.lock().unwrap().violations.clone()
    }

    pub fn evaluations(&self) -> u64 {
        self.inner.lock().unwrap().evaluations
    }

    pub fn to_json(&self) -> serde_json::Value {
        let g = self.inner.lock().unwrap();
        let mut cov = serde_json::Map::new();
        cov.insert("evaluations".into(), serde_json::json!(g.evaluations));
        cov.insert("distinct_nontrivial".into(), serde_json::json!(g.distinct.len()));
        cov.insert("nontrivial_total".into(), serde_json::json!(g.nontrivial_total));
        cov.insert("rule".into(), serde_json::json!(self.rule));
        cov.insert("samples".into(), serde_json::json!(g.samples));
        cov.insert("classification".into(), serde_json::json!(g.classes));
        let pc: BTreeMap<String, serde_json::Value> = g
            .per_campaign
            .iter()
            .map(|(k, v)| (k.clone(), serde_json::json!({"evaluations": v.0, "nontrivial": v.1})))
            .collect();
        cov.insert("campaigns".into(), serde_json::json!(pc));
        if let Some(e) = g.exhaustive {
            cov.insert("exhaustive".into(), serde_json::json!(e));
        }
        for (k, v) in &g.extra {
            cov.insert(k.clone(), v.clone());
        }
        if !g.known_hits.is_empty() {
            cov.insert("known_finding_hits".into(), serde_json::json!(g.known_hits));
        }
        serde_json::json!({
            "property_id": self.property,
            "tier": self.tier.name(),
            "seed": self.seed,
            "level": self.level,
            "coverage": serde_json::Value::Object(cov),
            "assumptions": self.assumptions,
            "wall_s": self.started.elapsed().as_secs_f64(),
            "violations": g.violations.len(),
        })
    }
}

fn truncate_json(v: serde_json::Value) -> serde_json::Value {
    // keep evidence files readable: long strings / arrays in samples are cut
    match v {
        serde_json::Value::String(s) if s.len() > 160 => {
            let mut cut = 120;
            while !s.is_char_boundary(cut) {
                cut -= 1;
            }
            serde_json::Value::String(format!("{}…(+{} bytes)", &s[..cut], s.len() - cut))
        }
        serde_json::Value::Array(a) if a.len() > 24 => {
            let n = a.len();
            let mut out: Vec<serde_json::Value> = a.into_iter().take(20).map(truncate_json).collect();
            out.push(serde_json::json!(format!("…(+{} items)", n - 20)));
            serde_json::Value::Array(out)
        }
        serde_json::Value::Array(a) => serde_json::Value::Array(a.into_iter().map(truncate_json).collect()),
        serde_json::Value::Object(m) => {
            serde_json::Value::Object(m.into_iter().map(|(k, v)| (k, truncate_json(v))).collect())
        }
        other => other,
    }
}

/// Run `cases` generated cases of a campaign, sharded over `shards` threads.
/// Returns true when no violation was found.
pub fn run_random<C: Campaign>(camp: &C, ev: &Evidence, ctx: &Ctx, cases: u32, shards: u32) -> bool {
    let shards = shards.max(1).min(cases.max(1));
    let base_seed = ctx.seed ^ crate::util::hash_str(ev.property) ^ crate::util::hash_str(camp.name()).rotate_left(17);
    let stop = Arc::new(AtomicBool::new(false));
    let failures: Mutex<Vec<(u32, String, C::Case)>> = Mutex::new(Vec::new());

    std::thread::scope(|scope| {
        for shard in 0..shards {
            let stop = stop.clone();
            let failures = &failures;
            let n = cases / shards + if shard < cases % shards { 1 } else { 0 };
            let seed = crate::util::mix(base_seed, shard as u64 + 1);
            let ctx = ctx.clone();
            scope.spawn(move || {
                if n == 0 {
                    return;
                }
                let strategy = camp.strategy(ctx.tier);
                let mut runner = TestRunner::new(Config {
                    cases: n,
                    failure_persistence: None,
                    rng_seed: RngSeed::Fixed(seed),
                    max_shrink_iters: crate::util::env_u64("VERIF_MAX_SHRINK", camp.max_shrink_iters() as u64) as u32,
                    max_global_rejects: 1_000_000,
                    ..Config::default()
                });
                let failed = std::cell::Cell::new(false);
                let res = runner.run(&strategy, |case| {
                    if !failed.get() && stop.load(Ordering::Relaxed) {
                        // another shard already failed: finish quickly
                        return Ok(());
                    }
                    let mut c = ctx.clone();
                    c.shrinking = failed.get();
                    let out = camp.check(&case, &c);
                    if !failed.get() {
                        // shrinking re-runs are not counted
                        ev.record(camp.name(), &case, &out);
                    }
                    match out.verdict {
                        Ok(()) => Ok(()),
                        Err(reason) => {
                            failed.set(true);
                            stop.store(true, Ordering::Relaxed);
                            Err(TestCaseError::fail(reason))
                        }
                    }
                });
                match res {
                    Ok(()) => {}
                    Err(TestError::Fail(reason, case)) => {
                        failures.lock().unwrap().push((shard, reason.message().to_string(), case));
                    }
                    Err(TestError::Abort(reason)) => {
                        eprintln!("[{}] campaign {} shard {} aborted: {}", ev.property, camp.name(), shard, reason);
                        crate::util::mark_inconclusive(&format!("proptest abort: {}", reason));
                    }
                }
            });
        }
    });

    let mut fails = failures.into_inner().unwrap();
    fails.sort_by_key(|f| f.0);
    if let Some((_, reason, case)) = fails.into_iter().next() {
        // confirm the shrunk case with the full liveness bound
        let mut c = ctx.clone();
        c.shrinking = false;
        let confirm = camp.check(&case, &c);
        let reason = match confirm.verdict {
            Err(r) => r,
            Ok(()) => format!("{} (shrunk case did not re-fail on confirmation; kept as found)", reason),
        };
        ev.add_violation(Violation {
            campaign: camp.name().to_string(),
            reason,
            case: serde_json::to_value(&case).unwrap_or(serde_json::Value::Null),
        });
        false
    } else {
        true
    }
}

/// Run an explicit list / iterator of cases (exhaustive enumerations, corpus replay).
/// Work is split over `shards` threads. Stops at the first violation.
pub fn run_list<C: Campaign, I>(camp: &C, ev: &Evidence, ctx: &Ctx, cases: I, shards: u32) -> bool
where
    I: Iterator<Item = C::Case> + Send,
{
    let stop = AtomicBool::new(false);
    let it = Mutex::new(cases);
    let fail: Mutex<Option<(String, C::Case)>> = Mutex::new(None);
    std::thread::scope(|scope| {
        for _ in 0..shards.max(1) {
            scope.spawn(|| loop {
                if stop.load(Ordering::Relaxed) {
                    break;
                }
                let next = { it.lock().unwrap().next() };
                let case = match next {
                    Some(c) => c,
                    None => break,
                };
                let out = camp.check(&case, ctx);
                ev.record(camp.name(), &case, &out);
                if let Err(reason) = out.verdict {
                    stop.store(true, Ordering::Relaxed);
                    let mut g = fail.lock().unwrap();
                    if g.is_none() {
                        *g = Some((reason, case));
                    }
                    break;
                }
            });
        }
    });
    if let Some((reason, case)) = fail.into_inner().unwrap() {
        ev.add_violation(Violation {
            campaign: camp.name().to_string(),
            reason,
            case: serde_json::to_value(&case).unwrap_or(serde_json::Value::Null),
        });
        false
    } else {
        true
    }
}

/// Replay one stored case through a campaign. Returns the verdict.
pub fn replay_case<C: Campaign>(camp: &C, ctx: &Ctx, case: &serde_json::Value) -> Result<Outcome, String> {
    let case: C::Case = serde_json::from_value(case.clone()).map_err(|e| format!("cannot decode case: {}", e))?;
    let mut c = ctx.clone();
    c.replay = true;
    Ok(camp.check(&case, &c))
}

pub fn shards() -> u32 {
    crate::util::env_u64("VERIF_SHARDS", 16) as u32
}

/// helper to use `Strategy::boxed` through a path without importing the trait
pub fn boxed<S: Strategy + 'static>(s: S) -> BoxedStrategy<S::Value> {
    s.boxed()
}
