//! Interpreter: runs a `FmtCase` against the real `cadence::StatsdClient` over a
//! scripted recording sink and a logging error handler.

use super::case::*;
use crate::util::{self, catch};
use cadence::prelude::*;
use cadence::{ErrorKind, Metric, MetricBuilder, MetricError, MetricResult, MetricSink, StatsdClient};
use std::collections::VecDeque;
use std::io;
use std::panic::RefUnwindSafe;
use std::sync::{Arc, Mutex};
use std::time::Duration;

#[derive(Clone, Debug, PartialEq)]
pub struct ErrInfo {
    pub invalid_input: bool,
    /// kind + token of the io::Error found as source()
    pub io: Option<(io::ErrorKind, Option<u64>)>,
    pub display: String,
}

impl ErrInfo {
    pub fn from_metric_error(e: &MetricError) -> Self {
        let io = std::error::Error::source(e)
            .and_then(|s| s.downcast_ref::<io::Error>())
            .map(util::io_error_token);
        ErrInfo {
            invalid_input: e.kind() == ErrorKind::InvalidInput,
            io,
            display: e.to_string(),
        }
    }
}

#[derive(Clone, Debug, Default)]
pub struct CallObs {
    pub emitted: Vec<String>,
    pub handler: Vec<ErrInfo>,
    /// None for the quiet form
    pub result: Option<Result<String, ErrInfo>>,
    pub panic: Option<String>,
}

#[derive(Default)]
struct SinkState {
    emitted: Vec<String>,
    script: VecDeque<(SinkOut, u64)>,
}

#[derive(Clone)]
pub struct ScriptedSink {
    st: Arc<Mutex<SinkState>>,
    /// auxiliary client used by the sink itself (a sink that keeps its own statistics)
    aux: Option<Arc<StatsdClient>>,
}

fn aux_client() -> Arc<StatsdClient> {
    Arc::new(StatsdClient::from_sink("aux", cadence::NopMetricSink))
}

/// what a user callback that records its own metrics does
fn reenter(aux: &StatsdClient) {
    aux.count_with_tags("callback.calls", 1i64).with_tag("from", "callback").send();
    let _ = aux.time("callback.time", Duration::from_millis(3));
    aux.gauge_with_tags("callback.level", 0.5f64).send();
}

impl RefUnwindSafe for ScriptedSink {}

impl MetricSink for ScriptedSink {
    fn emit(&self, metric: &str) -> io::Result<usize> {
        if let Some(aux) = &self.aux {
            reenter(aux);
        }
        let mut g = self.st.lock().unwrap();
        g.emitted.push(metric.to_string());
        // the outcome scripted for the current call stays in force for every
        // emit made during that call (a correct client makes one)
        match g.script.front().copied() {
            Some((SinkOut::Accept(n), _)) => Ok(n as usize),
            Some((SinkOut::Refuse(k), tok)) => Err(util::token_error(k, tok)),
            None => Ok(metric.len()),
        }
    }
}

fn apply_ops<'m, 'c, T>(mut b: MetricBuilder<'m, 'c, T>, ops: &'m [BOp]) -> MetricBuilder<'m, 'c, T>
where
    T: Metric + From<String>,
{
    for op in ops {
        b = match op {
            BOp::Tag(k, v) => b.with_tag(k, v),
            BOp::TagValue(v) => b.with_tag_value(v),
            BOp::Rate(bits) => b.with_sampling_rate(f64::from_bits(*bits)),
            BOp::Container(c) => b.with_container_id(c),
            BOp::Timestamp(t) => b.with_timestamp(*t),
        };
    }
    b
}

fn conv<T: Metric>(r: MetricResult<T>) -> Result<String, ErrInfo> {
    match r {
        Ok(m) => Ok(m.as_metric_str().to_string()),
        Err(e) => Err(ErrInfo::from_metric_error(&e)),
    }
}

fn durs(v: &[(u64, u32)]) -> Vec<Duration> {
    v.iter().map(|(s, n)| Duration::new(*s, *n)).collect()
}

fn floats(v: &[u64]) -> Vec<f64> {
    v.iter().map(|b| f64::from_bits(*b)).collect()
}

/// Perform one call. Returns None for the quiet form.
pub fn dispatch(client: &StatsdClient, call: &Call) -> Result<Option<Result<String, ErrInfo>>, String> {
    let key: &str = &call.key;
    let ops: &[BOp] = &call.ops;
    macro_rules! go {
        ($plain:ident, $tagged:ident, $v:expr) => {
            match call.form {
                Form::Plain => Some(conv(client.$plain(key, $v))),
                Form::Try => Some(conv(apply_ops(client.$tagged(key, $v), ops).try_send())),
                Form::Quiet => {
                    apply_ops(client.$tagged(key, $v), ops).send();
                    None
                }
            }
        };
    }
    macro_rules! go0 {
        ($plain:ident, $tagged:ident) => {
            match call.form {
                Form::Plain => Some(conv(client.$plain(key))),
                Form::Try => Some(conv(apply_ops(client.$tagged(key), ops).try_send())),
                Form::Quiet => {
                    apply_ops(client.$tagged(key), ops).send();
                    None
                }
            }
        };
    }
    use Entry::*;
    let r = match (call.entry, &call.val) {
        (CountI64, Val::I64(v)) => go!(count, count_with_tags, *v),
        (CountI32, Val::I32(v)) => go!(count, count_with_tags, *v),
        (CountU64, Val::U64(v)) => go!(count, count_with_tags, *v),
        (CountU32, Val::U32(v)) => go!(count, count_with_tags, *v),
        (Incr, Val::Unit) => go0!(incr, incr_with_tags),
        (Decr, Val::Unit) => go0!(decr, decr_with_tags),
        (TimeU64, Val::U64(v)) => go!(time, time_with_tags, *v),
        (TimeDur, Val::Dur(s, n)) => go!(time, time_with_tags, Duration::new(*s, *n)),
        (TimeVecU64, Val::VU64(v)) => go!(time, time_with_tags, v.clone()),
        (TimeVecDur, Val::VDur(v)) => go!(time, time_with_tags, durs(v)),
        (GaugeU64, Val::U64(v)) => go!(gauge, gauge_with_tags, *v),
        (GaugeF64, Val::F64(b)) => go!(gauge, gauge_with_tags, f64::from_bits(*b)),
        (MeterU64, Val::U64(v)) => go!(meter, meter_with_tags, *v),
        (HistU64, Val::U64(v)) => go!(histogram, histogram_with_tags, *v),
        (HistF64, Val::F64(b)) => go!(histogram, histogram_with_tags, f64::from_bits(*b)),
        (HistDur, Val::Dur(s, n)) => go!(histogram, histogram_with_tags, Duration::new(*s, *n)),
        (HistVecU64, Val::VU64(v)) => go!(histogram, histogram_with_tags, v.clone()),
        (HistVecF64, Val::VF64(v)) => go!(histogram, histogram_with_tags, floats(v)),
        (HistVecDur, Val::VDur(v)) => go!(histogram, histogram_with_tags, durs(v)),
        (DistU64, Val::U64(v)) => go!(distribution, distribution_with_tags, *v),
        (DistF64, Val::F64(b)) => go!(distribution, distribution_with_tags, f64::from_bits(*b)),
        (DistVecU64, Val::VU64(v)) => go!(distribution, distribution_with_tags, v.clone()),
        (DistVecF64, Val::VF64(v)) => go!(distribution, distribution_with_tags, floats(v)),
        (SetI64, Val::I64(v)) => go!(set, set_with_tags, *v),
        (e, v) => return Err(format!("malformed case: entry {:?} with value {:?}", e, v.ty())),
    };
    Ok(r)
}

pub fn build_client(cfg: &ClientCfg, sink: ScriptedSink, handler_log: Arc<Mutex<Vec<ErrInfo>>>) -> StatsdClient {
    if cfg.tags.is_empty() && cfg.container.is_none() && !cfg.handler && cfg.handler_panic_at.is_none() && cfg.prefix.len() % 2 == 0 {
        // the other public constructor (must behave like an option-less builder)
        return StatsdClient::from_sink(&cfg.prefix, sink);
    }
    let mut b = StatsdClient::builder(&cfg.prefix, sink);
    for t in &cfg.tags {
        b = match &t.key {
            Some(k) => b.with_tag(k, &t.value),
            None => b.with_tag_value(&t.value),
        };
    }
    if let Some(c) = &cfg.container {
        b = b.with_container_id(c);
    }
    if cfg.handler {
        let hl = HandlerLog(handler_log);
        let panic_at = cfg.handler_panic_at;
        let calls = std::sync::atomic::AtomicU32::new(0);
        let aux = if cfg.reenter & 2 != 0 { Some(HandlerAux(aux_client())) } else { None };
        b = b.with_error_handler(move |e: MetricError| {
            if let Some(a) = &aux {
                reenter(&a.0);
            }
            hl.0.lock().unwrap().push(ErrInfo::from_metric_error(&e));
            let n = calls.fetch_add(1, std::sync::atomic::Ordering::SeqCst) + 1;
            if panic_at.map_or(false, |k| n == k as u32) {
                panic!("{} (user error handler panics)", crate::util::HARNESS_PANIC);
            }
        });
    }
    b.build()
}

struct HandlerLog(Arc<Mutex<Vec<ErrInfo>>>);
impl RefUnwindSafe for HandlerLog {}
struct HandlerAux(Arc<StatsdClient>);
impl RefUnwindSafe for HandlerAux {}

/// Run the whole case. `Err` = malformed case (not a verdict).
pub fn run_case(case: &FmtCase) -> Result<Vec<CallObs>, String> {
    let st = Arc::new(Mutex::new(SinkState::default()));
    let sink = ScriptedSink {
        st: st.clone(),
        aux: if case.cfg.reenter & 1 != 0 { Some(aux_client()) } else { None },
    };
    let hlog: Arc<Mutex<Vec<ErrInfo>>> = Arc::new(Mutex::new(Vec::new()));
    let client = match catch(|| build_client(&case.cfg, sink, hlog.clone())) {
        Ok(c) => c,
        Err(p) => {
            // construction panicked: report on the first call
            let mut obs = vec![CallObs::default(); case.calls.len()];
            if let Some(o) = obs.first_mut() {
                o.panic = Some(format!("client construction panicked: {}", p));
            }
            return Ok(obs);
        }
    };
    let mut out = Vec::with_capacity(case.calls.len());
    for (i, call) in case.calls.iter().enumerate() {
        {
            let mut g = st.lock().unwrap();
            g.emitted.clear();
            g.script.clear();
            g.script.push_back((call.sink, i as u64 + 1));
        }
        hlog.lock().unwrap().clear();
        let res = catch(|| dispatch(&client, call));
        let mut obs = CallObs::default();
        match res {
            Ok(Ok(r)) => obs.result = r,
            Ok(Err(malformed)) => return Err(malformed),
            Err(p) => obs.panic = Some(p),
        }
        obs.emitted = std::mem::take(&mut st.lock().unwrap().emitted);
        obs.handler = std::mem::take(&mut *hlog.lock().unwrap());
        // an observer between calls: must neither panic nor change what follows
        if i % 3 == 1 && obs.panic.is_none() {
            if let Err(p) = catch(|| format!("{:?}", client).len()) {
                obs.panic = Some(format!("Debug-formatting the client panicked: {}", p));
            }
        }
        out.push(obs);
    }
    // dropping the client must not panic either
    if let Err(p) = catch(move || drop(client)) {
        if let Some(o) = out.last_mut() {
            if o.panic.is_none() {
                o.panic = Some(format!("dropping the client panicked: {}", p));
            }
        }
    }
    Ok(out)
}

/// Handle over a scripted sink + handler log whose client is handed away (used
/// by the macro engine: the client becomes the process-global default).
pub struct ScriptedSinkHandle {
    st: Arc<Mutex<SinkState>>,
    hlog: Arc<Mutex<Vec<ErrInfo>>>,
}

impl ScriptedSinkHandle {
    pub fn new() -> Self {
        ScriptedSinkHandle {
            st: Arc::new(Mutex::new(SinkState::default())),
            hlog: Arc::new(Mutex::new(Vec::new())),
        }
    }
    pub fn build_client(&self, cfg: &ClientCfg) -> StatsdClient {
        let sink = ScriptedSink {
            st: self.st.clone(),
            aux: if cfg.reenter & 1 != 0 { Some(aux_client()) } else { None },
        };
        build_client(cfg, sink, self.hlog.clone())
    }
    /// outcome (and error token) for the emits of the next call
    pub fn arm(&self, out: SinkOut, token: u64) {
        let mut g = self.st.lock().unwrap();
        g.emitted.clear();
        g.script.clear();
        g.script.push_back((out, token));
        self.hlog.lock().unwrap().clear();
    }
    pub fn take(&self) -> (Vec<String>, Vec<ErrInfo>) {
        (
            std::mem::take(&mut self.st.lock().unwrap().emitted),
            std::mem::take(&mut *self.hlog.lock().unwrap()),
        )
    }
}
