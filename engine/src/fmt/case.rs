//! Case types for the formatting / client family (C01–C04, C20-fmt) and their
//! proptest strategies.

use proptest::prelude::*;
use serde::{Deserialize, Serialize};

#[derive(Serialize, Deserialize, Clone, Debug, PartialEq, Eq, Hash)]
pub struct Tag {
    pub key: Option<String>,
    pub value: String,
}

#[derive(Serialize, Deserialize, Clone, Debug)]
pub struct ClientCfg {
    pub prefix: String,
    pub tags: Vec<Tag>,
    pub container: Option<String>,
    /// install a logging error handler (false = library default no-op handler)
    pub handler: bool,
    /// the logging handler panics (a user panic) after logging its k-th invocation
    #[serde(default)]
    pub handler_panic_at: Option<u8>,
    /// user callbacks that use the library themselves (on an auxiliary client over a
    /// no-op sink): bit 0 = the sink's emit records a metric with `.send()`, bit 1 = the
    /// error handler does. Nothing may panic, nothing changes for the outer call.
    #[serde(default)]
    pub reenter: u8,
}

#[derive(Serialize, Deserialize, Clone, Copy, Debug, PartialEq, Eq, Hash, PartialOrd, Ord)]
pub enum Entry {
    CountI64,
    CountI32,
    CountU64,
    CountU32,
    Incr,
    Decr,
    TimeU64,
    TimeDur,
    TimeVecU64,
    TimeVecDur,
    GaugeU64,
    GaugeF64,
    MeterU64,
    HistU64,
    HistF64,
    HistDur,
    HistVecU64,
    HistVecF64,
    HistVecDur,
    DistU64,
    DistF64,
    DistVecU64,
    DistVecF64,
    SetI64,
}

pub const ENTRIES: [Entry; 24] = [
    Entry::CountI64,
    Entry::CountI32,
    Entry::CountU64,
    Entry::CountU32,
    Entry::Incr,
    Entry::Decr,
    Entry::TimeU64,
    Entry::TimeDur,
    Entry::TimeVecU64,
    Entry::TimeVecDur,
    Entry::GaugeU64,
    Entry::GaugeF64,
    Entry::MeterU64,
    Entry::HistU64,
    Entry::HistF64,
    Entry::HistDur,
    Entry::HistVecU64,
    Entry::HistVecF64,
    Entry::HistVecDur,
    Entry::DistU64,
    Entry::DistF64,
    Entry::DistVecU64,
    Entry::DistVecF64,
    Entry::SetI64,
];

#[derive(Clone, Copy, Debug, PartialEq, Eq)]
pub enum ValTy {
    I64,
    I32,
    U64,
    U32,
    Unit,
    F64,
    Dur,
    VU64,
    VF64,
    VDur,
}

#[derive(Clone, Copy, Debug, PartialEq, Eq, Hash)]
pub enum Kind {
    Counter,
    Timer,
    Gauge,
    Meter,
    Histogram,
    Distribution,
    Set,
}

impl Kind {
    pub fn code(self) -> &'static str {
        match self {
            Kind::Counter => "c",
            Kind::Timer => "ms",
            Kind::Gauge => "g",
            Kind::Meter => "m",
            Kind::Histogram => "h",
            Kind::Distribution => "d",
            Kind::Set => "s",
        }
    }
}

impl Entry {
    pub fn kind(self) -> Kind {
        use Entry::*;
        match self {
            CountI64 | CountI32 | CountU64 | CountU32 | Incr | Decr => Kind::Counter,
            TimeU64 | TimeDur | TimeVecU64 | TimeVecDur => Kind::Timer,
            GaugeU64 | GaugeF64 => Kind::Gauge,
            MeterU64 => Kind::Meter,
            HistU64 | HistF64 | HistDur | HistVecU64 | HistVecF64 | HistVecDur => Kind::Histogram,
            DistU64 | DistF64 | DistVecU64 | DistVecF64 => Kind::Distribution,
            SetI64 => Kind::Set,
        }
    }
    pub fn val_ty(self) -> ValTy {
        use Entry::*;
        match self {
            CountI64 | SetI64 => ValTy::I64,
            CountI32 => ValTy::I32,
            CountU64 | TimeU64 | GaugeU64 | MeterU64 | HistU64 | DistU64 => ValTy::U64,
            CountU32 => ValTy::U32,
            Incr | Decr => ValTy::Unit,
            GaugeF64 | HistF64 | DistF64 => ValTy::F64,
            TimeDur | HistDur => ValTy::Dur,
            TimeVecU64 | HistVecU64 | DistVecU64 => ValTy::VU64,
            HistVecF64 | DistVecF64 => ValTy::VF64,
            TimeVecDur | HistVecDur => ValTy::VDur,
        }
    }
    pub fn index(self) -> usize {
        ENTRIES.iter().position(|e| *e == self).unwrap()
    }
}

/// f64 values are stored as their bit pattern so that replay files are exact.
#[derive(Serialize, Deserialize, Clone, Debug, PartialEq)]
pub enum Val {
    I64(i64),
    I32(i32),
    U64(u64),
    U32(u32),
    Unit,
    F64(u64),
    Dur(u64, u32),
    VU64(Vec<u64>),
    VF64(Vec<u64>),
    VDur(Vec<(u64, u32)>),
}

impl Val {
    pub fn ty(&self) -> ValTy {
        match self {
            Val::I64(_) => ValTy::I64,
            Val::I32(_) => ValTy::I32,
            Val::U64(_) => ValTy::U64,
            Val::U32(_) => ValTy::U32,
            Val::Unit => ValTy::Unit,
            Val::F64(_) => ValTy::F64,
            Val::Dur(..) => ValTy::Dur,
            Val::VU64(_) => ValTy::VU64,
            Val::VF64(_) => ValTy::VF64,
            Val::VDur(_) => ValTy::VDur,
        }
    }
    pub fn list_len(&self) -> Option<usize> {
        match self {
            Val::VU64(v) => Some(v.len()),
            Val::VF64(v) => Some(v.len()),
            Val::VDur(v) => Some(v.len()),
            _ => None,
        }
    }
}

#[derive(Serialize, Deserialize, Clone, Copy, Debug, PartialEq, Eq, Hash)]
pub enum Form {
    /// `client.count(key, v)` → MetricResult
    Plain,
    /// `client.count_with_tags(key, v)…try_send()`
    Try,
    /// `client.count_with_tags(key, v)…send()`
    Quiet,
}

#[derive(Serialize, Deserialize, Clone, Debug, PartialEq)]
pub enum BOp {
    Tag(String, String),
    TagValue(String),
    Rate(u64),
    Container(String),
    Timestamp(u64),
}

#[derive(Serialize, Deserialize, Clone, Copy, Debug, PartialEq, Eq)]
pub enum SinkOut {
    /// sink returns Ok(n) with this n (arbitrary, the client must not care)
    Accept(u64),
    /// sink returns Err(io::Error) of kind index
    Refuse(u8),
}

#[derive(Serialize, Deserialize, Clone, Debug)]
pub struct Call {
    pub entry: Entry,
    pub val: Val,
    pub form: Form,
    pub key: String,
    /// builder operations in call order (ignored for Form::Plain)
    pub ops: Vec<BOp>,
    pub sink: SinkOut,
}

#[derive(Serialize, Deserialize, Clone, Debug)]
pub struct FmtCase {
    pub cfg: ClientCfg,
    pub calls: Vec<Call>,
}

// ---------------------------------------------------------------------------
// strategies

pub const DELIMS: &[char] = &[':', '|', '#', ',', '@', '\n'];

pub fn is_delim_free(s: &str) -> bool {
    !s.contains(DELIMS)
}

fn free_char() -> impl Strategy<Value = char> {
    prop_oneof![
        10 => prop::sample::select(vec!['a', 'b', 'k', 'Z', '0', '7', '.', '_', '-', '/', ' ', '=', '~', '%', '\t', '\r']),
        2 => prop::sample::select(vec!['é', 'ß', '日', '本', '𝄞', '\u{0}', '\u{7f}', '\u{2028}']),
        1 => any::<char>().prop_filter("delimiter", |c| !DELIMS.contains(c)),
    ]
}

fn laden_char() -> impl Strategy<Value = char> {
    prop_oneof![
        3 => free_char(),
        2 => prop::sample::select(DELIMS.to_vec()),
    ]
}

pub fn free_string(max: usize) -> impl Strategy<Value = String> {
    prop::collection::vec(free_char(), 0..=max).prop_map(|v| v.into_iter().collect())
}

pub fn laden_string(max: usize) -> impl Strategy<Value = String> {
    prop::collection::vec(laden_char(), 0..=max).prop_map(|v| v.into_iter().collect())
}

/// general string: mostly short, sometimes delimiter-laden, rarely long
pub fn any_string() -> impl Strategy<Value = String> {
    prop_oneof![
        12 => free_string(10),
        5 => laden_string(10),
        1 => (free_string(6), 1usize..700).prop_map(|(s, n)| {
            let unit = if s.is_empty() { "x".to_string() } else { s };
            let mut out = String::new();
            while out.len() < n * 6 && out.len() < 4096 {
                out.push_str(&unit);
            }
            out
        }),
    ]
}

pub fn prefix_string() -> impl Strategy<Value = String> {
    prop_oneof![
        3 => Just(String::new()),
        10 => (any_string(), 0usize..4).prop_map(|(s, dots)| format!("{}{}", s, ".".repeat(dots))),
        1 => (1usize..5).prop_map(|n| ".".repeat(n)),
        2 => Just("my.app".to_string()),
    ]
}

pub fn tag() -> impl Strategy<Value = Tag> {
    prop_oneof![
        3 => (any_string(), any_string()).prop_map(|(k, v)| Tag { key: Some(k), value: v }),
        2 => any_string().prop_map(|v| Tag { key: None, value: v }),
    ]
}

pub fn cfg_strategy(max_tags: usize) -> impl Strategy<Value = ClientCfg> {
    (
        prefix_string(),
        prop_oneof![2 => Just(Vec::new()).boxed(), 3 => prop::collection::vec(tag(), 0..=max_tags).boxed()],
        prop::option::weighted(0.4, any_string()),
        prop::bool::weighted(0.8),
    )
        .prop_map(|(prefix, tags, container, handler)| ClientCfg {
            prefix,
            tags,
            container,
            handler,
            handler_panic_at: None,
            reenter: 0,
        })
}

pub const I64_EDGES: &[i64] = &[
    0,
    1,
    -1,
    i64::MAX,
    i64::MIN,
    i64::MAX - 1,
    i64::MIN + 1,
    i32::MAX as i64,
    i32::MIN as i64,
    i32::MAX as i64 + 1,
    i32::MIN as i64 - 1,
    u32::MAX as i64,
    u32::MAX as i64 + 1,
    9,
    10,
    99,
    100,
    -9,
    -10,
    999_999_999,
    1_000_000_000,
    -1_000_000_000,
    9_007_199_254_740_993,
    1 << 53,
    (1 << 62) - 1,
    1 << 62,
];

pub fn i64_val() -> impl Strategy<Value = i64> {
    prop_oneof![
        3 => prop::sample::select(I64_EDGES.to_vec()),
        3 => any::<i64>(),
        2 => -1000i64..1000,
        1 => (0u32..63, any::<bool>(), -1i64..=1).prop_map(|(k, neg, d)| {
            let v = (1i64 << k).wrapping_add(d);
            if neg { v.wrapping_neg() } else { v }
        }),
        1 => (0u32..19, -1i64..=1).prop_map(|(k, d)| 10i64.pow(k).wrapping_add(d)),
    ]
}

pub fn i32_val() -> impl Strategy<Value = i32> {
    prop_oneof![
        2 => prop::sample::select(vec![0, 1, -1, i32::MAX, i32::MIN, i32::MAX - 1, i32::MIN + 1, 65535, 65536, -65536]),
        3 => any::<i32>(),
        1 => -100i32..100,
    ]
}

pub fn u64_val() -> impl Strategy<Value = u64> {
    prop_oneof![
        3 => prop::sample::select(vec![
            0, 1, 9, 10, u64::MAX, u64::MAX - 1, i64::MAX as u64, i64::MAX as u64 + 1, u32::MAX as u64,
            u32::MAX as u64 + 1, 1 << 53, (1 << 53) + 1, 9_999_999_999_999_999_999, 10_000_000_000_000_000_000,
        ]),
        3 => any::<u64>(),
        2 => 0u64..1000,
        1 => (0u32..64, -1i64..=1).prop_map(|(k, d)| (1u64 << k).wrapping_add(d as u64)),
        1 => (0u32..20, -1i64..=1).prop_map(|(k, d)| 10u64.pow(k).wrapping_add(d as u64)),
    ]
}

pub fn u32_val() -> impl Strategy<Value = u32> {
    prop_oneof![
        2 => prop::sample::select(vec![0, 1, u32::MAX, u32::MAX - 1, i32::MAX as u32, i32::MAX as u32 + 1, 65535, 65536]),
        3 => any::<u32>(),
        1 => 0u32..100,
    ]
}

pub fn f64_table() -> Vec<u64> {
    let vals: Vec<f64> = vec![
        0.0,
        -0.0,
        1.0,
        -1.0,
        0.5,
        0.1,
        0.2,
        0.1 + 0.2,
        0.3,
        1.0 / 3.0,
        2.0 / 3.0,
        f64::MAX,
        f64::MIN,
        f64::MIN_POSITIVE,
        f64::EPSILON,
        5e-324,
        -5e-324,
        2.2250738585072009e-308, // largest subnormal
        1e300,
        -1e300,
        1e21,
        1e22,
        1e23,
        1e-7,
        1e-5,
        123456789.12345678,
        9007199254740992.0,
        9007199254740993.0,
        9007199254740991.0,
        4.35,
        0.000001,
        1.7976931348623157e308,
        8.41e21,
        2.0f64.powi(-1074),
        5.0e-324 * 3.0,
        0.1234567890123456,
        123456789012345680.0,
        1.0e-300,
        0.999999999999999,
        0.9999999999999999,
        0.01,
        0.001,
        0.25,
        0.75,
        1.5,
        100.0,
    ];
    vals.into_iter().map(f64::to_bits).collect()
}

/// finite f64 bit pattern, edge-biased
pub fn finite_f64_bits() -> impl Strategy<Value = u64> {
    prop_oneof![
        3 => prop::sample::select(f64_table()),
        4 => (any::<bool>(), 0u64..0x7ff, any::<u64>()).prop_map(|(s, e, m)| {
            ((s as u64) << 63) | (e << 52) | (m & ((1u64 << 52) - 1))
        }),
        2 => (any::<bool>(), any::<u64>()).prop_map(|(s, m)| ((s as u64) << 63) | (m & ((1u64 << 52) - 1))), // subnormals
        2 => (-1000i32..1000, 0u32..1000).prop_map(|(a, b)| (a as f64 + b as f64 / 1000.0).to_bits()),
        1 => (0.0f64..=1.0).prop_map(f64::to_bits),
    ]
}

/// any f64 bit pattern incl. NaN / infinities (rare)
pub fn any_f64_bits() -> impl Strategy<Value = u64> {
    prop_oneof![
        20 => finite_f64_bits(),
        1 => prop::sample::select(vec![f64::NAN.to_bits(), f64::INFINITY.to_bits(), f64::NEG_INFINITY.to_bits(), 0x7ff0000000000001, 0xfff8000000000000]),
    ]
}

pub const MS_SECS: u64 = 18_446_744_073_709_551; // u64::MAX / 1000
pub const NS_SECS: u64 = 18_446_744_073; // u64::MAX / 1e9

pub fn dur_val() -> impl Strategy<Value = (u64, u32)> {
    prop_oneof![
        3 => (any::<u64>(), 0u32..1_000_000_000),
        3 => (0u64..100_000, 0u32..1_000_000_000),
        2 => prop::sample::select(vec![
            (0, 0), (0, 1), (0, 999_999), (0, 1_000_000), (0, 999_999_999), (1, 0), (u64::MAX, 999_999_999), (u64::MAX, 0),
            (MS_SECS, 615_000_000), (MS_SECS, 615_999_999), (MS_SECS, 616_000_000), (MS_SECS, 614_999_999),
            (MS_SECS + 1, 0), (MS_SECS - 1, 999_999_999),
            (NS_SECS, 709_551_615), (NS_SECS, 709_551_616), (NS_SECS, 709_551_614), (NS_SECS + 1, 0), (NS_SECS - 1, 999_999_999),
        ]),
        // ±2 around the ms boundary
        2 => (0u64..3, 613u32..618, 0u32..1_000_000).prop_map(|(ds, ms, sub)| (MS_SECS - 1 + ds, ms * 1_000_000 + sub)),
        // ±2 around the ns boundary
        2 => (0u64..3, 709_551_613u32..709_551_619).prop_map(|(ds, ns)| (NS_SECS - 1 + ds, ns)),
    ]
}

fn list_len() -> impl Strategy<Value = usize> {
    prop_oneof![
        2 => Just(0usize),
        3 => Just(1usize),
        3 => 2usize..6,
        2 => 6usize..40,
    ]
}

pub fn val_for(ty: ValTy) -> BoxedStrategy<Val> {
    match ty {
        ValTy::I64 => i64_val().prop_map(Val::I64).boxed(),
        ValTy::I32 => i32_val().prop_map(Val::I32).boxed(),
        ValTy::U64 => u64_val().prop_map(Val::U64).boxed(),
        ValTy::U32 => u32_val().prop_map(Val::U32).boxed(),
        ValTy::Unit => Just(Val::Unit).boxed(),
        ValTy::F64 => any_f64_bits().prop_map(Val::F64).boxed(),
        ValTy::Dur => dur_val().prop_map(|(s, n)| Val::Dur(s, n)).boxed(),
        ValTy::VU64 => list_len()
            .prop_flat_map(|n| prop::collection::vec(u64_val(), n))
            .prop_map(Val::VU64)
            .boxed(),
        ValTy::VF64 => list_len()
            .prop_flat_map(|n| prop::collection::vec(any_f64_bits(), n))
            .prop_map(Val::VF64)
            .boxed(),
        ValTy::VDur => list_len()
            .prop_flat_map(|n| prop::collection::vec(dur_val(), n))
            .prop_map(Val::VDur)
            .boxed(),
    }
}

pub fn bop() -> impl Strategy<Value = BOp> {
    prop_oneof![
        4 => (any_string(), any_string()).prop_map(|(k, v)| BOp::Tag(k, v)),
        3 => any_string().prop_map(BOp::TagValue),
        2 => any_f64_bits().prop_map(BOp::Rate),
        2 => any_string().prop_map(BOp::Container),
        2 => prop_oneof![any::<u64>(), 0u64..2_000_000_000, Just(u64::MAX), Just(0)].prop_map(BOp::Timestamp),
    ]
}

/// keep at most one Rate / Container / Timestamp (the first of each)
pub fn normalise_ops(ops: Vec<BOp>) -> Vec<BOp> {
    let (mut r, mut c, mut t) = (false, false, false);
    ops.into_iter()
        .filter(|op| match op {
            BOp::Rate(_) => !std::mem::replace(&mut r, true),
            BOp::Container(_) => !std::mem::replace(&mut c, true),
            BOp::Timestamp(_) => !std::mem::replace(&mut t, true),
            _ => true,
        })
        .collect()
}

pub fn sink_out(refuse_weight: u32) -> impl Strategy<Value = SinkOut> {
    prop_oneof![
        10 => prop_oneof![Just(0u64), Just(usize::MAX as u64), any::<u32>().prop_map(|x| x as u64)].prop_map(SinkOut::Accept),
        refuse_weight => (0u8..crate::util::IO_KINDS.len() as u8).prop_map(SinkOut::Refuse),
    ]
}

pub fn call_strategy(max_ops: usize, refuse_weight: u32) -> impl Strategy<Value = Call> {
    (0usize..ENTRIES.len(), prop_oneof![Just(Form::Plain), Just(Form::Try), Just(Form::Quiet)])
        .prop_flat_map(move |(ei, form)| {
            let entry = ENTRIES[ei];
            (
                Just(entry),
                val_for(entry.val_ty()),
                Just(form),
                any_string(),
                prop::collection::vec(bop(), 0..=max_ops).prop_map(normalise_ops),
                sink_out(refuse_weight),
            )
        })
        .prop_map(|(entry, val, form, key, ops, sink)| Call {
            entry,
            val,
            form,
            key,
            ops: if form == Form::Plain { Vec::new() } else { ops },
            sink,
        })
}

fn sanitize_str(s: &mut String) {
    if s.contains(DELIMS) {
        *s = s.chars().map(|c| if DELIMS.contains(&c) { '_' } else { c }).collect();
    }
}

/// make every supplied string delimiter-free (enables the round-trip oracle)
pub fn sanitize(mut c: FmtCase) -> FmtCase {
    sanitize_str(&mut c.cfg.prefix);
    for t in &mut c.cfg.tags {
        if let Some(k) = &mut t.key {
            sanitize_str(k);
        }
        sanitize_str(&mut t.value);
    }
    if let Some(k) = &mut c.cfg.container {
        sanitize_str(k);
    }
    for call in &mut c.calls {
        sanitize_str(&mut call.key);
        for op in &mut call.ops {
            match op {
                BOp::Tag(k, v) => {
                    sanitize_str(k);
                    sanitize_str(v);
                }
                BOp::TagValue(v) | BOp::Container(v) => sanitize_str(v),
                _ => {}
            }
        }
    }
    c
}

pub fn case_delim_free(c: &FmtCase) -> bool {
    is_delim_free(&c.cfg.prefix)
        && c.cfg.tags.iter().all(|t| t.key.as_deref().map_or(true, is_delim_free) && is_delim_free(&t.value))
        && c.cfg.container.as_deref().map_or(true, is_delim_free)
        && c.calls.iter().all(|call| {
            is_delim_free(&call.key)
                && call.ops.iter().all(|op| match op {
                    BOp::Tag(k, v) => is_delim_free(k) && is_delim_free(v),
                    BOp::TagValue(v) | BOp::Container(v) => is_delim_free(v),
                    _ => true,
                })
        })
}

/// General FmtCase strategy.
pub fn fmt_case(max_calls: usize, max_cfg_tags: usize, max_ops: usize, refuse_weight: u32) -> BoxedStrategy<FmtCase> {
    (
        prop::bool::weighted(0.65),
        cfg_strategy(max_cfg_tags),
        prop::collection::vec(call_strategy(max_ops, refuse_weight), 1..=max_calls),
        prop::option::weighted(0.08, 1u8..4),
        prop_oneof![9 => Just(0u8), 1 => 1u8..4],
    )
        .prop_map(|(free, mut cfg, calls, hp, reenter)| {
            if cfg.handler && calls.len() >= 3 {
                cfg.handler_panic_at = hp;
            }
            cfg.reenter = reenter;
            let c = FmtCase { cfg, calls };
            if free {
                sanitize(c)
            } else {
                c
            }
        })
        .boxed()
}
