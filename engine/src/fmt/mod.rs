//! fmt family: C01 (line), C02 (values), C03 (outcomes), C04 (decoration).

pub mod case;
pub mod exec;
pub mod judge;
pub mod model;

use crate::driver::{Campaign, Ctx, Evidence, Outcome, Tier};
use crate::util;
use case::*;
use judge::{Aspect, Finding};
use proptest::prelude::*;
use std::collections::HashSet;
use std::sync::Mutex;

#[derive(Clone, Copy, Debug, PartialEq, Eq)]
pub enum Focus {
    Line,
    Value,
    Outcome,
    Decor,
    Panic,
}

pub struct FmtCampaign {
    pub name: &'static str,
    pub focus: Focus,
    cells: Mutex<HashSet<(usize, u8, u8)>>,
    counters: Mutex<(u64, u64)>, // standalone comparisons, round trips
}

impl FmtCampaign {
    pub fn new(name: &'static str, focus: Focus) -> Self {
        FmtCampaign {
            name,
            focus,
            cells: Mutex::new(HashSet::new()),
            counters: Mutex::new((0, 0)),
        }
    }

    pub fn report(&self, ev: &Evidence) {
        let cells = self.cells.lock().unwrap();
        let entries: HashSet<usize> = cells.iter().map(|c| c.0).collect();
        ev.set_extra(
            &format!("{}_cells", self.name),
            serde_json::json!({
                "distinct (entry, form, section-mask) cells hit": cells.len(),
                "of possible": 24 * (1 + 2 * 16),
                "entries hit": entries.len(),
            }),
        );
        let c = self.counters.lock().unwrap();
        ev.set_extra(
            &format!("{}_oracles", self.name),
            serde_json::json!({"standalone_constructor_comparisons": c.0, "round_trip_parses": c.1}),
        );
    }

    fn relevant(&self, f: &Finding) -> bool {
        match (self.focus, f.aspect) {
            (_, Aspect::Panic) => true,
            (Focus::Line, Aspect::Line) => true,
            (Focus::Value, Aspect::Value) => true,
            (Focus::Outcome, Aspect::Outcome) => true,
            (Focus::Decor, Aspect::Decor) => true,
            _ => false,
        }
    }
}

fn sections_of(call: &Call) -> u8 {
    let mut m = 0u8;
    if call.form == Form::Plain {
        return 0;
    }
    for op in &call.ops {
        m |= match op {
            BOp::Rate(_) => 1,
            BOp::Tag(..) | BOp::TagValue(_) => 2,
            BOp::Container(_) => 4,
            BOp::Timestamp(_) => 8,
        };
    }
    m
}

fn near_boundary(s: u64, n: u32) -> bool {
    let ms = s as u128 * 1000 + n as u128 / 1_000_000;
    let ns = s as u128 * 1_000_000_000 + n as u128;
    let max = u64::MAX as u128;
    ms.abs_diff(max) <= 2 || ns.abs_diff(max) <= 2
}

fn value_nontrivial(v: &Val) -> bool {
    let f_nt = |b: u64| {
        let x = f64::from_bits(b);
        x.is_finite() && (x.fract() != 0.0 || x.is_subnormal() || x.abs() > 2147483648.0)
    };
    match v {
        Val::I64(x) => *x > i32::MAX as i64 || *x < i32::MIN as i64,
        Val::U64(x) => *x > i32::MAX as u64,
        Val::I32(_) | Val::U32(_) | Val::Unit => false,
        Val::F64(b) => f_nt(*b),
        Val::Dur(s, n) => near_boundary(*s, *n),
        Val::VU64(v) => v.len() >= 2,
        Val::VF64(v) => v.len() >= 2,
        Val::VDur(v) => v.len() >= 2 || v.iter().any(|(s, n)| near_boundary(*s, *n)),
    }
}

impl Campaign for FmtCampaign {
    type Case = FmtCase;
    fn name(&self) -> &'static str {
        self.name
    }

    fn strategy(&self, _tier: Tier) -> BoxedStrategy<FmtCase> {
        match self.focus {
            Focus::Line | Focus::Panic => fmt_case(2, 4, 5, 1),
            Focus::Value => fmt_case(2, 2, 2, 1),
            Focus::Outcome => fmt_case(12, 2, 2, 7),
            Focus::Decor => fmt_case(3, 6, 6, 1),
        }
    }

    fn check(&self, case: &FmtCase, ctx: &Ctx) -> Outcome {
        let obs = match exec::run_case(case) {
            Ok(o) => o,
            Err(m) => {
                util::mark_inconclusive(&m);
                return Outcome::ok();
            }
        };
        let judged = match judge::judge(case, &obs) {
            Ok(j) => j,
            Err(m) => {
                util::mark_inconclusive(&m);
                return Outcome::ok();
            }
        };
        {
            let mut c = self.counters.lock().unwrap();
            c.0 += judged.standalone_checked as u64;
            c.1 += judged.round_trips as u64;
        }
        {
            let mut cells = self.cells.lock().unwrap();
            for call in &case.calls {
                let f = match call.form {
                    Form::Plain => 0,
                    Form::Try => 1,
                    Form::Quiet => 2,
                };
                cells.insert((call.entry.index(), f, sections_of(call)));
            }
        }
        let verdict = match judged
            .findings
            .iter()
            .find(|f| self.relevant(f) && !crate::known::absorb(ctx.property, &f.msg))
        {
            None => Ok(()),
            Some(f) => Err(format!("call #{} ({:?}/{:?}): {}", f.call, case.calls[f.call].entry, case.calls[f.call].form, f.msg)),
        };

        // classification + non-triviality
        let mut classes: Vec<&'static str> = Vec::new();
        let free = case_delim_free(case);
        classes.push(if free { "delimiter-free (round-trip judged)" } else { "delimiter-laden" });
        let mut nontrivial = false;
        let has_cfg_tags = !case.cfg.tags.is_empty();
        let mut accepted = false;
        let mut failed = false;
        for call in &case.calls {
            let m = sections_of(call) | if has_cfg_tags { 2 } else { 0 } | if case.cfg.container.is_some() { 4 } else { 0 };
            let nsec = m.count_ones();
            let list_nt = matches!(call.val.list_len(), Some(n) if n != 1);
            let non_ascii = !case.cfg.prefix.is_ascii() || !call.key.is_ascii() || case.cfg.prefix.ends_with('.');
            let overflow = matches!(model::expected_value(call.entry, &call.val), Ok(model::ExpectedValue::Overflow));
            let invalid = overflow || call.val.list_len() == Some(0);
            if overflow {
                classes.push("overflowing duration");
            }
            if call.val.list_len() == Some(0) {
                classes.push("empty packed list");
            }
            if matches!(call.sink, SinkOut::Refuse(_)) && !invalid {
                classes.push("sink refused");
                failed = true;
            } else if invalid {
                failed = true;
            } else {
                accepted = true;
            }
            match self.focus {
                Focus::Line | Focus::Panic => nontrivial |= nsec >= 2 || list_nt || non_ascii,
                Focus::Value => nontrivial |= value_nontrivial(&call.val),
                Focus::Decor => {
                    let call_tags = call.form != Form::Plain && call.ops.iter().any(|o| matches!(o, BOp::Tag(..) | BOp::TagValue(_)));
                    let over = call.form != Form::Plain && call.ops.iter().any(|o| matches!(o, BOp::Container(_)));
                    nontrivial |= (has_cfg_tags && call_tags) || over;
                    if over && case.cfg.container.is_some() {
                        classes.push("container override of a default");
                    }
                }
                Focus::Outcome => {}
            }
        }
        if self.focus == Focus::Outcome {
            nontrivial = accepted && failed;
        }
        if nontrivial {
            classes.push("non-trivial");
        }
        let fingerprint = match self.focus {
            Focus::Outcome => {
                // distinct by (entry, form, outcome) sequence
                let key: Vec<(usize, u8, u8)> = case
                    .calls
                    .iter()
                    .map(|c| {
                        (
                            c.entry.index(),
                            c.form as u8,
                            match c.sink {
                                SinkOut::Accept(_) => 0,
                                SinkOut::Refuse(k) => 1 + k,
                            },
                        )
                    })
                    .collect();
                util::hash_json(&key)
            }
            _ => util::hash_json(case),
        };
        Outcome {
            verdict,
            nontrivial,
            fingerprint,
            classes,
        }
    }
}

/// C03 thorough: for a generated call list (≤ 7 calls) enumerate all 2^n
/// accept/refuse scripts.
pub struct OutcomeExhaustive {
    inner: FmtCampaign,
}

impl OutcomeExhaustive {
    pub fn new() -> Self {
        OutcomeExhaustive {
            inner: FmtCampaign::new("fmt-outcome-all-scripts", Focus::Outcome),
        }
    }
}

impl Campaign for OutcomeExhaustive {
    type Case = FmtCase;
    fn name(&self) -> &'static str {
        "fmt-outcome-all-scripts"
    }
    fn strategy(&self, _tier: Tier) -> BoxedStrategy<FmtCase> {
        fmt_case(7, 1, 1, 3)
    }
    fn check(&self, case: &FmtCase, ctx: &Ctx) -> Outcome {
        let n = case.calls.len().min(7);
        let mut first: Option<Outcome> = None;
        let mut any_nt = false;
        for mask in 0u32..(1 << n) {
            let mut c = case.clone();
            c.calls.truncate(n);
            for (i, call) in c.calls.iter_mut().enumerate() {
                let refuse = mask & (1 << i) != 0;
                call.sink = match (refuse, call.sink) {
                    (true, SinkOut::Refuse(k)) => SinkOut::Refuse(k),
                    (true, SinkOut::Accept(n)) => SinkOut::Refuse((n % 13) as u8),
                    (false, SinkOut::Accept(n)) => SinkOut::Accept(n),
                    (false, SinkOut::Refuse(k)) => SinkOut::Accept(k as u64),
                };
            }
            let o = self.inner.check(&c, ctx);
            any_nt |= o.nontrivial;
            if o.verdict.is_err() {
                let mut o = o;
                o.verdict = o.verdict.map_err(|e| format!("script mask {:#b}: {}", mask, e));
                return o;
            }
            if first.is_none() {
                first = Some(o);
            }
        }
        let mut o = first.unwrap_or_else(Outcome::ok);
        o.nontrivial = any_nt && n >= 2;
        o.fingerprint = util::hash_json(case);
        o.classes = vec!["all 2^n accept/refuse scripts enumerated"];
        o
    }
}
