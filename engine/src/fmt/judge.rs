//! Oracle for the fmt family: compares what the real client did with the
//! reference model; findings are tagged with the aspect (→ property) they
//! belong to.

use super::case::*;
use super::exec::{CallObs, ErrInfo};
use super::model::*;
use crate::util;
use cadence::Metric;

#[derive(Clone, Copy, Debug, PartialEq, Eq)]
pub enum Aspect {
    /// C01: whole-line structure and fidelity
    Line,
    /// C02: numerals / durations / overflow rejection
    Value,
    /// C03: emit count, results, handler
    Outcome,
    /// C04: default tags / container decoration
    Decor,
    /// C20: panic
    Panic,
}

#[derive(Clone, Debug)]
pub struct Finding {
    pub aspect: Aspect,
    pub call: usize,
    pub msg: String,
}

fn f(aspect: Aspect, call: usize, msg: impl Into<String>) -> Finding {
    Finding {
        aspect,
        call,
        msg: msg.into(),
    }
}

fn expect_err_invalid(out: &mut Vec<Finding>, aspects: &[Aspect], i: usize, cfg: &ClientCfg, call: &Call, obs: &CallObs, why: &str) {
    match call.form {
        Form::Plain | Form::Try => match &obs.result {
            Some(Err(e)) if e.invalid_input => {}
            other => {
                for a in aspects {
                    out.push(f(*a, i, format!("{}: expected an invalid-input error, got {:?}", why, brief(other))));
                }
            }
        },
        Form::Quiet => {
            if cfg.handler {
                let ok = obs.handler.len() == 1 && obs.handler[0].invalid_input;
                if !ok {
                    for a in aspects {
                        out.push(f(
                            *a,
                            i,
                            format!("{}: quiet send must call the handler once with an invalid-input error, handler log: {:?}", why, obs.handler),
                        ));
                    }
                }
            }
        }
    }
}

fn brief(r: &Option<Result<String, ErrInfo>>) -> String {
    match r {
        None => "no result".to_string(),
        Some(Ok(s)) => format!("Ok('{}')", clip(s)),
        Some(Err(e)) => format!("Err({:?})", e),
    }
}

/// Standalone constructor text for a scalar value, if one exists for this entry.
fn standalone(entry: Entry, num: &Num, prefix: &str, key: &str) -> Option<String> {
    use cadence::{Counter, Distribution, Gauge, Histogram, Meter, Set, Timer};
    let kind = entry.kind();
    Some(match (kind, num) {
        (Kind::Counter, Num::Int(v)) => {
            let v = i64::try_from(*v).ok()?;
            Counter::new(prefix, key, v).as_metric_str().to_string()
        }
        (Kind::Set, Num::Int(v)) => {
            let v = i64::try_from(*v).ok()?;
            Set::new(prefix, key, v).as_metric_str().to_string()
        }
        (Kind::Timer, Num::Int(v)) => Timer::new(prefix, key, u64::try_from(*v).ok()?).as_metric_str().to_string(),
        (Kind::Gauge, Num::Int(v)) => Gauge::new(prefix, key, u64::try_from(*v).ok()?).as_metric_str().to_string(),
        (Kind::Gauge, Num::Float(b)) => Gauge::new_f64(prefix, key, f64::from_bits(*b)).as_metric_str().to_string(),
        (Kind::Meter, Num::Int(v)) => Meter::new(prefix, key, u64::try_from(*v).ok()?).as_metric_str().to_string(),
        (Kind::Histogram, Num::Int(v)) => Histogram::new(prefix, key, u64::try_from(*v).ok()?).as_metric_str().to_string(),
        (Kind::Histogram, Num::Float(b)) => Histogram::new_f64(prefix, key, f64::from_bits(*b)).as_metric_str().to_string(),
        (Kind::Distribution, Num::Int(v)) => Distribution::new(prefix, key, u64::try_from(*v).ok()?).as_metric_str().to_string(),
        (Kind::Distribution, Num::Float(b)) => Distribution::new_f64(prefix, key, f64::from_bits(*b)).as_metric_str().to_string(),
        _ => return None,
    })
}

pub struct Judged {
    pub findings: Vec<Finding>,
    /// number of calls whose standalone constructor was compared
    pub standalone_checked: usize,
    pub round_trips: usize,
}

pub fn judge(case: &FmtCase, obs: &[CallObs]) -> Result<Judged, String> {
    let mut out = Vec::new();
    let mut standalone_checked = 0;
    let mut round_trips = 0;
    let free = case_delim_free(case);
    if obs.len() != case.calls.len() {
        return Err("observation count mismatch".into());
    }
    for (i, (call, o)) in case.calls.iter().zip(obs.iter()).enumerate() {
        let ev = expected_value(call.entry, &call.val)?;
        if let Some(p) = o.panic.as_ref().filter(|p| p.contains(crate::util::HARNESS_PANIC)) {
            // the user's error handler panicked (harness-injected): the handler must have been
            // reached exactly once for this call; nothing else about this call is judged
            let _ = p;
            if o.handler.len() != 1 {
                out.push(f(Aspect::Outcome, i, format!("handler log for the call whose handler panicked: {:?}", o.handler)));
            }
            continue;
        }
        if let Some(p) = &o.panic {
            out.push(f(Aspect::Panic, i, format!("call panicked: {}", p)));
            if call.form == Form::Quiet {
                out.push(f(Aspect::Outcome, i, format!("quiet send panicked: {}", p)));
            }
            continue;
        }
        let n_emit = o.emitted.len();
        match ev {
            ExpectedValue::Values(vals) => {
                let exp = expected_line(&case.cfg, call, vals.clone());
                if n_emit != 1 {
                    out.push(f(Aspect::Outcome, i, format!("a valid call must hand the sink exactly one string, it handed {}", n_emit)));
                    if n_emit == 0 {
                        out.push(f(Aspect::Line, i, "a valid call emitted nothing"));
                        out.push(f(Aspect::Value, i, "a valid (non-overflowing) value was not sent"));
                        if !exp.tags.is_empty() || exp.container.is_some() {
                            out.push(f(Aspect::Decor, i, "a valid call emitted nothing (decoration missing)"));
                        }
                    }
                }
                for line in o.emitted.iter().take(2) {
                    match match_line_ex(line, &exp) {
                        Ok(()) => {}
                        Err(me) => {
                            out.push(f(Aspect::Line, i, format!("line '{}': {}", clip(line), me.msg)));
                            match me.part {
                                Part::Value | Part::Rate => out.push(f(Aspect::Value, i, format!("line '{}': {}", clip(line), me.msg))),
                                _ => {}
                            }
                            // decoration judged on its own
                            let decor = format!("{}{}", exp.tag_section(), exp.container_section());
                            let ts = exp.timestamp_section();
                            let decor_bad = match (&me.part, &me.rest) {
                                (Part::Tail, Some(rest)) => {
                                    let found = rest.strip_suffix(ts.as_str()).unwrap_or(rest.as_str());
                                    found != decor
                                }
                                _ => !exp.tail().is_empty() && !line.ends_with(&exp.tail()),
                            };
                            if decor_bad {
                                out.push(f(
                                    Aspect::Decor,
                                    i,
                                    format!("line '{}': tag/container sections differ from expected '{}'", clip(line), clip(&decor)),
                                ));
                            }
                        }
                    }
                    if free {
                        round_trips += 1;
                        if let Err(e) = check_round_trip(line, &exp) {
                            out.push(f(Aspect::Line, i, format!("round trip of '{}': {}", clip(line), e)));
                        }
                    }
                }
                // standalone constructors (scalar values only)
                if vals.len() == 1 && call.val.list_len().is_none() {
                    let bare = ExpectedLine {
                        rate: None,
                        tags: Vec::new(),
                        container: None,
                        timestamp: None,
                        ..exp.clone()
                    };
                    let fp = formatted_prefix(&case.cfg.prefix);
                    for (p, k) in [("", exp.name.as_str()), (fp.as_str(), call.key.as_str())] {
                        let text = util::catch(|| standalone(call.entry, &vals[0], p, k));
                        match text {
                            Ok(Some(text)) => {
                                standalone_checked += 1;
                                if let Err(me) = match_line_ex(&text, &bare) {
                                    out.push(f(Aspect::Line, i, format!("standalone constructor text '{}': {}", clip(&text), me.msg)));
                                }
                                // same text as the client for a section-less call
                                if exp.section_mask() == 0 && n_emit == 1 && o.emitted[0] != text {
                                    out.push(f(
                                        Aspect::Line,
                                        i,
                                        format!("standalone constructor gives '{}' but the client sent '{}'", clip(&text), clip(&o.emitted[0])),
                                    ));
                                }
                            }
                            Ok(None) => {}
                            Err(p) => out.push(f(Aspect::Panic, i, format!("standalone constructor panicked: {}", p))),
                        }
                    }
                }
                // outcome
                match call.sink {
                    SinkOut::Accept(_) => {
                        match (&call.form, &o.result) {
                            (Form::Quiet, _) => {
                                if !o.handler.is_empty() {
                                    out.push(f(Aspect::Outcome, i, format!("handler invoked on success: {:?}", o.handler)));
                                }
                                // no Ok(metric) is returned in the quiet form: the one string the sink
                                // accepted must be this call's own metric text
                                if n_emit == 1 {
                                    if let Err(me) = match_line_ex(&o.emitted[0], &exp) {
                                        out.push(f(
                                            Aspect::Outcome,
                                            i,
                                            format!("quiet send handed the sink '{}', which is not this call's metric: {}", clip(&o.emitted[0]), me.msg),
                                        ));
                                    }
                                }
                            }
                            (_, Some(Ok(text))) => {
                                if n_emit >= 1 && !o.emitted.iter().any(|e| e == text) {
                                    out.push(f(
                                        Aspect::Outcome,
                                        i,
                                        format!("Ok('{}') returned but the sink was handed '{}'", clip(text), clip(&o.emitted[0])),
                                    ));
                                    out.push(f(Aspect::Line, i, "returned metric text differs from what the sink received"));
                                }
                                if n_emit == 0 {
                                    out.push(f(Aspect::Outcome, i, "Ok returned although the sink was never called"));
                                }
                            }
                            (_, other) => out.push(f(
                                Aspect::Outcome,
                                i,
                                format!("valid value and accepting sink, but the call returned {}", brief(other)),
                            )),
                        }
                    }
                    SinkOut::Refuse(k) => {
                        let want = (util::io_kind(k), Some(i as u64 + 1));
                        let is_that = |e: &ErrInfo| !e.invalid_input && e.io == Some(want);
                        match call.form {
                            Form::Quiet => {
                                if case.cfg.handler {
                                    if !(o.handler.len() == 1 && is_that(&o.handler[0])) {
                                        out.push(f(
                                            Aspect::Outcome,
                                            i,
                                            format!(
                                                "sink refused with {:?}: handler must be called exactly once with that error, log: {:?}",
                                                want, o.handler
                                            ),
                                        ));
                                    }
                                }
                            }
                            _ => match &o.result {
                                Some(Err(e)) if is_that(e) => {}
                                other => out.push(f(
                                    Aspect::Outcome,
                                    i,
                                    format!("sink refused with {:?} but the call returned {}", want, brief(other)),
                                )),
                            },
                        }
                    }
                }
            }
            ExpectedValue::Overflow => {
                if n_emit != 0 {
                    let m = format!("overflowing duration must not be sent, sink received '{}'", clip(&o.emitted[0]));
                    out.push(f(Aspect::Value, i, m.clone()));
                    out.push(f(Aspect::Outcome, i, m));
                }
                expect_err_invalid(&mut out, &[Aspect::Value, Aspect::Outcome], i, &case.cfg, call, o, "duration does not fit in 64 bits");
            }
            ExpectedValue::EmptyList => {
                if n_emit != 0 {
                    out.push(f(
                        Aspect::Line,
                        i,
                        format!("[sig=empty-packed-list] empty value list produced the line '{}' which has no value", clip(&o.emitted[0])),
                    ));
                    if n_emit > 1 {
                        out.push(f(Aspect::Outcome, i, format!("{} emits for one call", n_emit)));
                    }
                    // C03 consistency when it was sent
                    if let (SinkOut::Accept(_), Some(Ok(text))) = (&call.sink, &o.result) {
                        if !o.emitted.iter().any(|e| e == text) {
                            out.push(f(Aspect::Outcome, i, "Ok text differs from what the sink received"));
                        }
                    }
                } else {
                    expect_err_invalid(&mut out, &[Aspect::Outcome], i, &case.cfg, call, o, "empty value list rejected");
                }
            }
        }
    }
    Ok(Judged {
        findings: out,
        standalone_checked,
        round_trips,
    })
}
