//! Reference line model, independent of cadence's builder: renders what a call
//! must produce (with "holes" for floating point numerals, which are judged by
//! parsing them back), matches an emitted line against it and parses
//! delimiter-free lines back into their parts.

use super::case::*;

/// own integer → canonical decimal (no use of `Display` for integers)
pub fn itoa(v: i128) -> String {
    if v == 0 {
        return "0".to_string();
    }
    let neg = v < 0;
    let mut n: u128 = v.unsigned_abs();
    let mut digits = Vec::new();
    while n > 0 {
        digits.push(b'0' + (n % 10) as u8);
        n /= 10;
    }
    if neg {
        digits.push(b'-');
    }
    digits.reverse();
    String::from_utf8(digits).unwrap()
}

#[derive(Clone, Debug, PartialEq)]
pub enum Num {
    Int(i128),
    Float(u64),
}

/// What the value of a call must become.
#[derive(Clone, Debug, PartialEq)]
pub enum ExpectedValue {
    /// one or more numerals
    Values(Vec<Num>),
    /// the value is rejected (duration does not fit in 64 bits)
    Overflow,
    /// empty packed list: no well-formed line exists
    EmptyList,
}

fn dur_ms(secs: u64, nanos: u32) -> u128 {
    secs as u128 * 1000 + (nanos as u128) / 1_000_000
}

fn dur_ns(secs: u64, nanos: u32) -> u128 {
    secs as u128 * 1_000_000_000 + nanos as u128
}

pub fn expected_value(entry: Entry, val: &Val) -> Result<ExpectedValue, String> {
    if entry.val_ty() != val.ty() {
        return Err(format!("malformed case: entry {:?} with value {:?}", entry, val.ty()));
    }
    let max = u64::MAX as u128;
    let timer = entry.kind() == Kind::Timer;
    Ok(match val {
        Val::I64(v) => ExpectedValue::Values(vec![Num::Int(*v as i128)]),
        Val::I32(v) => ExpectedValue::Values(vec![Num::Int(*v as i128)]),
        Val::U64(v) => ExpectedValue::Values(vec![Num::Int(*v as i128)]),
        Val::U32(v) => ExpectedValue::Values(vec![Num::Int(*v as i128)]),
        Val::Unit => ExpectedValue::Values(vec![Num::Int(if entry == Entry::Incr { 1 } else { -1 })]),
        Val::F64(b) => ExpectedValue::Values(vec![Num::Float(*b)]),
        Val::Dur(s, n) => {
            let v = if timer { dur_ms(*s, *n) } else { dur_ns(*s, *n) };
            if v > max {
                ExpectedValue::Overflow
            } else {
                ExpectedValue::Values(vec![Num::Int(v as i128)])
            }
        }
        Val::VU64(v) => {
            if v.is_empty() {
                ExpectedValue::EmptyList
            } else {
                ExpectedValue::Values(v.iter().map(|x| Num::Int(*x as i128)).collect())
            }
        }
        Val::VF64(v) => {
            if v.is_empty() {
                ExpectedValue::EmptyList
            } else {
                ExpectedValue::Values(v.iter().map(|x| Num::Float(*x)).collect())
            }
        }
        Val::VDur(v) => {
            let conv: Vec<u128> = v.iter().map(|(s, n)| if timer { dur_ms(*s, *n) } else { dur_ns(*s, *n) }).collect();
            if conv.iter().any(|x| *x > max) {
                // overflow wins over emptiness (an empty list has no overflowing element)
                ExpectedValue::Overflow
            } else if conv.is_empty() {
                ExpectedValue::EmptyList
            } else {
                ExpectedValue::Values(conv.into_iter().map(|x| Num::Int(x as i128)).collect())
            }
        }
    })
}

pub fn expected_name(prefix: &str, key: &str) -> String {
    if prefix.is_empty() {
        key.to_string()
    } else {
        let mut p = prefix;
        while let Some(stripped) = p.strip_suffix('.') {
            p = stripped;
        }
        format!("{}.{}", p, key)
    }
}

/// prefix in the form the standalone constructors expect ("" or "trimmed.")
pub fn formatted_prefix(prefix: &str) -> String {
    if prefix.is_empty() {
        String::new()
    } else {
        let mut p = prefix;
        while let Some(stripped) = p.strip_suffix('.') {
            p = stripped;
        }
        format!("{}.", p)
    }
}

/// Everything a well-formed line for a call consists of.
#[derive(Clone, Debug)]
pub struct ExpectedLine {
    pub name: String,
    pub values: Vec<Num>,
    pub code: &'static str,
    pub rate: Option<u64>,
    pub tags: Vec<Tag>,
    pub container: Option<String>,
    pub timestamp: Option<u64>,
}

impl ExpectedLine {
    pub fn tag_section(&self) -> String {
        if self.tags.is_empty() {
            return String::new();
        }
        let mut s = String::from("|#");
        for (i, t) in self.tags.iter().enumerate() {
            if i > 0 {
                s.push(',');
            }
            if let Some(k) = &t.key {
                s.push_str(k);
                s.push(':');
            }
            s.push_str(&t.value);
        }
        s
    }
    pub fn container_section(&self) -> String {
        match &self.container {
            Some(c) => format!("|c:{}", c),
            None => String::new(),
        }
    }
    pub fn timestamp_section(&self) -> String {
        match self.timestamp {
            Some(t) => format!("|T{}", itoa(t as i128)),
            None => String::new(),
        }
    }
    /// literal text that must follow the type code and the optional rate
    pub fn tail(&self) -> String {
        format!("{}{}{}", self.tag_section(), self.container_section(), self.timestamp_section())
    }
    pub fn section_mask(&self) -> u8 {
        (self.rate.is_some() as u8)
            | ((!self.tags.is_empty() as u8) << 1)
            | ((self.container.is_some() as u8) << 2)
            | ((self.timestamp.is_some() as u8) << 3)
    }
}

pub fn expected_line(cfg: &ClientCfg, call: &Call, values: Vec<Num>) -> ExpectedLine {
    let mut tags: Vec<Tag> = cfg.tags.clone();
    let mut container = cfg.container.clone();
    let mut rate = None;
    let mut timestamp = None;
    if call.form != Form::Plain {
        for op in &call.ops {
            match op {
                BOp::Tag(k, v) => tags.push(Tag {
                    key: Some(k.clone()),
                    value: v.clone(),
                }),
                BOp::TagValue(v) => tags.push(Tag {
                    key: None,
                    value: v.clone(),
                }),
                BOp::Rate(b) => rate = Some(*b),
                BOp::Container(c) => container = Some(c.clone()),
                BOp::Timestamp(t) => timestamp = Some(*t),
            }
        }
    }
    ExpectedLine {
        name: expected_name(&cfg.prefix, &call.key),
        values,
        code: call.entry.kind().code(),
        rate,
        tags,
        container,
        timestamp,
    }
}

#[derive(Clone, Copy, Debug, PartialEq, Eq)]
pub enum Part {
    Name,
    Value,
    Type,
    Rate,
    Tail,
}

fn is_num_char(c: u8) -> bool {
    c == b'-' || c == b'+' || c == b'.' || c.is_ascii_alphanumeric()
}

/// `-?digits[.digits][(e|E)[-+]digits]`
pub fn is_decimal_numeral(tok: &str) -> bool {
    let b = tok.as_bytes();
    let mut i = 0;
    if i < b.len() && b[i] == b'-' {
        i += 1;
    }
    let d0 = i;
    while i < b.len() && b[i].is_ascii_digit() {
        i += 1;
    }
    if i == d0 {
        return false;
    }
    if i < b.len() && b[i] == b'.' {
        i += 1;
        let d1 = i;
        while i < b.len() && b[i].is_ascii_digit() {
            i += 1;
        }
        if i == d1 {
            return false;
        }
    }
    if i < b.len() && (b[i] == b'e' || b[i] == b'E') {
        i += 1;
        if i < b.len() && (b[i] == b'-' || b[i] == b'+') {
            i += 1;
        }
        let d2 = i;
        while i < b.len() && b[i].is_ascii_digit() {
            i += 1;
        }
        if i == d2 {
            return false;
        }
    }
    i == b.len()
}

/// check one float token against the value supplied
pub fn check_float_token(tok: &str, bits: u64) -> Result<(), String> {
    let v = f64::from_bits(bits);
    if tok.is_empty() {
        return Err("empty numeral".to_string());
    }
    if !v.is_finite() {
        // NaN / ±inf are "sent": no numeric claim beyond a non-empty token
        return Ok(());
    }
    if !is_decimal_numeral(tok) {
        return Err(format!("'{}' is not a decimal numeral", tok));
    }
    match tok.parse::<f64>() {
        Ok(p) if p.to_bits() == bits => Ok(()),
        Ok(p) => Err(format!(
            "numeral '{}' parses to {:e} (bits {:#x}) but {:e} (bits {:#x}) was supplied",
            tok,
            p,
            p.to_bits(),
            v,
            bits
        )),
        Err(e) => Err(format!("numeral '{}' does not parse: {}", tok, e)),
    }
}

/// Match an emitted line against the expectation. On mismatch reports the part
/// of the line that is wrong.
pub fn match_line(line: &str, exp: &ExpectedLine) -> Result<(), (Part, String)> {
    match_line_ex(line, exp).map_err(|e| (e.part, e.msg))
}

#[derive(Clone, Debug)]
pub struct MatchErr {
    pub part: Part,
    pub msg: String,
    /// for Part::Tail: the text actually found after type/rate
    pub rest: Option<String>,
}

impl From<(Part, String)> for MatchErr {
    fn from(x: (Part, String)) -> Self {
        MatchErr { part: x.0, msg: x.1, rest: None }
    }
}

pub fn match_line_ex(line: &str, exp: &ExpectedLine) -> Result<(), MatchErr> {
    let b = line.as_bytes();
    let mut pos = 0usize;
    let name_colon = format!("{}:", exp.name);
    if !line.starts_with(&name_colon) {
        return Err((Part::Name, format!("line does not start with name '{}' and ':'", clip(&exp.name))).into());
    }
    pos += name_colon.len();
    for (i, v) in exp.values.iter().enumerate() {
        if i > 0 {
            if b.get(pos) != Some(&b':') {
                return Err((Part::Value, format!("expected ':' before value #{} at byte {}", i, pos)).into());
            }
            pos += 1;
        }
        match v {
            Num::Int(x) => {
                let lit = itoa(*x);
                // the numeral must be followed by a non-numeral character
                let end = pos + b[pos..].iter().take_while(|c| is_num_char(**c)).count();
                let tok = &line[pos..end];
                if tok != lit {
                    return Err((Part::Value, format!("value #{}: expected numeral {} but found '{}'", i, lit, clip(tok))).into());
                }
                pos = end;
            }
            Num::Float(bits) => {
                let end = pos + b[pos..].iter().take_while(|c| is_num_char(**c)).count();
                let tok = &line[pos..end];
                check_float_token(tok, *bits).map_err(|e| MatchErr::from((Part::Value, format!("value #{}: {}", i, e))))?;
                pos = end;
            }
        }
    }
    if exp.values.is_empty() {
        return Err((Part::Value, "no value expected?".to_string()).into());
    }
    let ty = format!("|{}", exp.code);
    if !line[pos..].starts_with(&ty) {
        // more values than supplied, or wrong type code
        let part = if b.get(pos) == Some(&b':') { Part::Value } else { Part::Type };
        return Err((part, format!("expected '{}' at byte {} but found '{}'", ty, pos, clip(&line[pos..]))).into());
    }
    pos += ty.len();
    if let Some(bits) = exp.rate {
        if !line[pos..].starts_with("|@") {
            return Err((Part::Rate, format!("expected sampling rate section at byte {}: '{}'", pos, clip(&line[pos..]))).into());
        }
        pos += 2;
        let end = pos + b[pos..].iter().take_while(|c| is_num_char(**c)).count();
        let tok = &line[pos..end];
        check_float_token(tok, bits).map_err(|e| MatchErr::from((Part::Rate, format!("sampling rate: {}", e))))?;
        pos = end;
    }
    let tail = exp.tail();
    if line[pos..] != tail {
        return Err(MatchErr {
            part: Part::Tail,
            msg: format!("after type/rate expected '{}' but found '{}'", clip(&tail), clip(&line[pos..])),
            rest: Some(line[pos..].to_string()),
        });
    }
    Ok(())
}

pub fn clip(s: &str) -> String {
    if s.len() <= 120 {
        s.to_string()
    } else {
        let mut cut = 100;
        while !s.is_char_boundary(cut) {
            cut -= 1;
        }
        format!("{}…(+{} bytes)", &s[..cut], s.len() - cut)
    }
}

// ---------------------------------------------------------------------------
// parser for delimiter-free lines (round-trip direction)

#[derive(Clone, Debug, PartialEq)]
pub struct Parsed {
    pub name: String,
    pub values: Vec<String>,
    pub code: String,
    pub rate: Option<String>,
    pub tags: Option<Vec<Tag>>,
    pub container: Option<String>,
    pub timestamp: Option<String>,
}

pub fn parse_line(line: &str) -> Result<Parsed, String> {
    let mut fields = line.split('|');
    let head = fields.next().ok_or("empty line")?;
    let mut hv = head.split(':');
    let name = hv.next().unwrap_or("").to_string();
    let values: Vec<String> = hv.map(|s| s.to_string()).collect();
    if !head.contains(':') {
        return Err("no ':' after the name".to_string());
    }
    let code = fields.next().ok_or("no type field")?.to_string();
    let mut p = Parsed {
        name,
        values,
        code,
        rate: None,
        tags: None,
        container: None,
        timestamp: None,
    };
    // sections in the fixed order @, #, c:, T; each at most once
    let mut stage = 0;
    for f in fields {
        if let Some(r) = f.strip_prefix('@') {
            if stage > 0 {
                return Err(format!("sampling rate section out of order: '{}'", f));
            }
            stage = 1;
            p.rate = Some(r.to_string());
        } else if let Some(t) = f.strip_prefix('#') {
            if stage > 1 {
                return Err(format!("tag section out of order: '{}'", f));
            }
            stage = 2;
            p.tags = Some(
                t.split(',')
                    .map(|item| match item.split_once(':') {
                        Some((k, v)) => Tag {
                            key: Some(k.to_string()),
                            value: v.to_string(),
                        },
                        None => Tag {
                            key: None,
                            value: item.to_string(),
                        },
                    })
                    .collect(),
            );
        } else if let Some(c) = f.strip_prefix("c:") {
            if stage > 2 {
                return Err(format!("container section out of order: '{}'", f));
            }
            stage = 3;
            p.container = Some(c.to_string());
        } else if let Some(t) = f.strip_prefix('T') {
            if stage > 3 {
                return Err(format!("timestamp section out of order: '{}'", f));
            }
            stage = 4;
            p.timestamp = Some(t.to_string());
        } else {
            return Err(format!("unrecognised section '{}'", clip(f)));
        }
    }
    Ok(p)
}

/// Compare a parsed delimiter-free line with what was supplied.
pub fn check_round_trip(line: &str, exp: &ExpectedLine) -> Result<(), String> {
    let p = parse_line(line)?;
    if p.name != exp.name {
        return Err(format!("parsed name '{}' != supplied '{}'", clip(&p.name), clip(&exp.name)));
    }
    if p.values.len() != exp.values.len() {
        return Err(format!("parsed {} values, supplied {}", p.values.len(), exp.values.len()));
    }
    for (i, (tok, v)) in p.values.iter().zip(exp.values.iter()).enumerate() {
        match v {
            Num::Int(x) => {
                let ok = tok.parse::<i128>().ok() == Some(*x) && *tok == itoa(*x);
                if !ok {
                    return Err(format!("value #{} parsed '{}' != supplied {}", i, tok, x));
                }
            }
            Num::Float(b) => check_float_token(tok, *b).map_err(|e| format!("value #{}: {}", i, e))?,
        }
    }
    if p.code != exp.code {
        return Err(format!("parsed type '{}' != '{}'", p.code, exp.code));
    }
    match (&p.rate, exp.rate) {
        (None, None) => {}
        (Some(tok), Some(b)) => check_float_token(tok, b).map_err(|e| format!("rate: {}", e))?,
        (a, b) => return Err(format!("rate presence: parsed {:?}, supplied {:?}", a, b.map(f64::from_bits))),
    }
    let exp_tags = if exp.tags.is_empty() { None } else { Some(exp.tags.clone()) };
    if p.tags != exp_tags {
        return Err(format!("parsed tags {:?} != supplied {:?}", p.tags, exp_tags));
    }
    if p.container != exp.container {
        return Err(format!("parsed container {:?} != supplied {:?}", p.container, exp.container));
    }
    match (&p.timestamp, exp.timestamp) {
        (None, None) => {}
        (Some(tok), Some(t)) => {
            if tok.parse::<u64>().ok() != Some(t) || *tok != itoa(t as i128) {
                return Err(format!("timestamp parsed '{}' != supplied {}", tok, t));
            }
        }
        (a, b) => return Err(format!("timestamp presence: parsed {:?}, supplied {:?}", a, b)),
    }
    Ok(())
}

#[cfg(test)]
mod tests {
    use super::*;
    #[test]
    fn itoa_works() {
        assert_eq!(itoa(0), "0");
        assert_eq!(itoa(-1), "-1");
        assert_eq!(itoa(i64::MIN as i128), "-9223372036854775808");
        assert_eq!(itoa(u64::MAX as i128), "18446744073709551615");
    }
    #[test]
    fn numeral() {
        assert!(is_decimal_numeral("0"));
        assert!(is_decimal_numeral("-0"));
        assert!(is_decimal_numeral("1.5"));
        assert!(is_decimal_numeral("1e300"));
        assert!(is_decimal_numeral("1.5E-7"));
        assert!(!is_decimal_numeral(""));
        assert!(!is_decimal_numeral("-"));
        assert!(!is_decimal_numeral("1."));
        assert!(!is_decimal_numeral(".5"));
        assert!(!is_decimal_numeral("NaN"));
        assert!(!is_decimal_numeral("1e"));
    }
}
