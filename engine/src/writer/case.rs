//! Case types and strategies for the line-buffered writer family
//! (C05, C06, C07, C19; reused by the socket seams of C13/C14).

use proptest::prelude::*;
use serde::{Deserialize, Serialize};

#[derive(Serialize, Deserialize, Clone, Debug, PartialEq, Eq, Hash)]
pub enum WOp {
    Emit(String),
    Flush,
    /// only meaningful for the queue seam: clone the queuing sink handle and drop the clone
    /// (must not touch the wrapped buffered sink); a no-op elsewhere
    CloneDrop,
}

#[derive(Serialize, Deserialize, Clone, Debug)]
pub struct WriterCase {
    pub cap: usize,
    pub term: String,
    pub ops: Vec<WOp>,
    /// fault script over underlying write attempts, in order: Some(kind index)
    /// = this attempt fails with that io::ErrorKind; attempts past the end succeed
    pub faults: Vec<Option<u8>>,
}

#[derive(Clone, Copy, Debug)]
pub struct GenCfg {
    pub max_ops: usize,
    pub faults: bool,
    /// probability weight (of 10) of a large capacity (64..=600)
    pub big_caps: u32,
    /// fixed capacity (sink constructors with the default size)
    pub fixed_cap: Option<usize>,
    /// fixed terminator (sinks always use "\n")
    pub fixed_term: Option<&'static str>,
    /// weight of Flush among the ops (of 10)
    pub flush_weight: u32,
    /// weight of CloneDrop (queue seam only)
    pub clone_drop_weight: u32,
    /// fault scripts may also contain short writes (`Ok(n)`, n < len, incl. 0) of the underlying
    /// writer, encoded as kind 100 + n. Only the panic oracle (C20) is applied to such cases.
    pub short_writes: bool,
}

pub fn cap_strategy(big: u32) -> BoxedStrategy<usize> {
    prop_oneof![
        3 => prop::sample::select(vec![0usize, 1, 2, 3, 4]),
        8 => 5usize..24,
        3 => 24usize..64,
        big => prop_oneof![
            10 => 64usize..600,
            10 => Just(512usize),
            // beyond std's default BufWriter size and the datagram limit: the writer's own
            // capacity is what counts, whatever an inner buffer would prefer
            1 => prop_oneof![8190usize..8196, Just(16384usize), 65534usize..65540, Just(70_000usize), Just(131_072usize)],
        ],
    ]
    .boxed()
}

pub fn term_strategy() -> BoxedStrategy<String> {
    prop_oneof![
        6 => Just("\n".to_string()),
        2 => Just("\r\n".to_string()),
        1 => Just("é".to_string()),
        1 => Just("ab".to_string()),
        1 => Just("::::".to_string()),
        1 => Just("-----------".to_string()),
    ]
    .boxed()
}

/// metric of a length chosen relative to the capacity; content from a small
/// alphabet that includes the terminator's own characters
fn metric_strategy(cap: usize, term: String) -> BoxedStrategy<String> {
    let tl = term.len();
    let fit = cap.saturating_sub(tl);
    let mut alphabet: Vec<char> = vec!['a', 'b', 'c', '\n'];
    for c in term.chars() {
        if !alphabet.contains(&c) {
            alphabet.push(c);
        }
    }
    let len = prop_oneof![
        3 => Just(fit),
        2 => Just(fit.saturating_sub(1)),
        2 => Just(fit + 1),
        1 => Just(0usize),
        2 => Just(1usize),
        2 => Just(fit / 2),
        2 => Just(fit / 3),
        1 => Just(cap),
        1 => Just(cap + 1),
        5 => 0..=(2 * cap + 2),
        3 => 0..=(cap / 2 + 1),
    ];
    (len, prop::collection::vec(prop::sample::select(alphabet), 1..6), any::<bool>())
        .prop_map(|(len, pat, uniq)| {
            // build a string of exactly `len` bytes (best effort with multi-byte chars)
            let mut s = String::new();
            let mut i = 0;
            while s.len() < len {
                let c = pat[i % pat.len()];
                if s.len() + c.len_utf8() > len {
                    // pad with ASCII to hit the exact byte length
                    s.push(if uniq { 'x' } else { 'a' });
                } else {
                    s.push(c);
                }
                i += 1;
            }
            s
        })
        .boxed()
}

pub fn writer_case(cfg: GenCfg) -> BoxedStrategy<WriterCase> {
    let cap = match cfg.fixed_cap {
        Some(c) => Just(c).boxed(),
        None => cap_strategy(cfg.big_caps),
    };
    let term = match cfg.fixed_term {
        Some(t) => Just(t.to_string()).boxed(),
        None => term_strategy(),
    };
    (cap, term)
        .prop_flat_map(move |(cap, term)| {
            // sometimes derive the capacity from the terminator (|term|, |term|±1)
            let op = prop_oneof![
                (10 - cfg.flush_weight) => metric_strategy(cap, term.clone()).prop_map(WOp::Emit),
                cfg.flush_weight => Just(WOp::Flush),
                cfg.clone_drop_weight => Just(WOp::CloneDrop),
            ];
            let faults = if cfg.faults {
                prop::collection::vec(
                    prop_oneof![
                        6 => Just(None),
                        3 => (0u8..12).prop_map(Some),
                        1 => Just(Some(12u8)), // Interrupted (retried by std's BufWriter)
                        (if cfg.short_writes { 3 } else { 0 }) => prop_oneof![Just(100u8), Just(101u8), Just(102u8), 100u8..140].prop_map(Some),
                    ],
                    0..(cfg.max_ops + 6),
                )
                .boxed()
            } else {
                Just(Vec::new()).boxed()
            };
            (Just(cap), Just(term), prop::collection::vec(op, 0..=cfg.max_ops), faults)
        })
        .prop_map(|(cap, term, ops, faults)| WriterCase { cap, term, ops, faults })
        .boxed()
}

/// capacities derived from the terminator length (cap ≤ |term| region)
pub fn tiny_cap_case(cfg: GenCfg) -> BoxedStrategy<WriterCase> {
    (term_strategy(), 0usize..3, any::<bool>())
        .prop_flat_map(move |(term, d, minus)| {
            let tl = term.len();
            let cap = if minus { tl.saturating_sub(d) } else { tl + d };
            let mut c = cfg;
            c.fixed_cap = Some(cap);
            // term is re-drawn by writer_case unless fixed; keep it by leaking a 'static copy
            let t: &'static str = match term.as_str() {
                "\n" => "\n",
                "\r\n" => "\r\n",
                "é" => "é",
                "ab" => "ab",
                "::::" => "::::",
                _ => "-----------",
            };
            c.fixed_term = Some(t);
            writer_case(c)
        })
        .boxed()
}
