//! Trace oracle for line-buffered writers (DESIGN §2.2).
//!
//! Input: for every API call (emit / flush / drop) its result and the list of
//! underlying write attempts made during that call. The oracle keeps a FIFO of
//! acknowledged buffered items (metric + terminator) and matches every attempt
//! *by position* against that FIFO, so metrics may contain the terminator, be
//! empty or be duplicates. Where an attempt has two readings (an oversized
//! metric whose bytes coincide with a FIFO prefix) both are followed.

use std::collections::BTreeSet;

#[derive(Clone, Debug, PartialEq, Eq)]
pub struct ErrTok {
    pub kind: std::io::ErrorKind,
    pub token: Option<u64>,
}

#[derive(Clone, Debug)]
pub struct Attempt {
    pub bytes: Vec<u8>,
    /// None = the underlying writer took every byte
    pub err: Option<ErrTok>,
}

#[derive(Clone, Debug)]
pub enum OpKind {
    Emit(Vec<u8>),
    Flush,
    Drop,
}

#[derive(Clone, Debug)]
pub enum OpResult {
    /// emit returned Ok(n)
    Wrote(usize),
    /// flush returned Ok(())
    Flushed,
    Err(ErrTok),
    /// drop has no result
    None,
    Panicked(String),
}

#[derive(Clone, Debug)]
pub struct OpTrace {
    pub kind: OpKind,
    pub attempts: Vec<Attempt>,
    pub result: OpResult,
}

#[derive(Clone, Copy, Debug, PartialEq, Eq, Hash, PartialOrd, Ord)]
pub enum Rule {
    /// C05
    Framing,
    /// C06
    Conservation,
    /// C07
    Fault,
    /// C19
    Greedy,
    /// C20
    Panic,
}

#[derive(Clone, Debug)]
pub struct Finding {
    pub rule: Rule,
    pub op: usize,
    pub msg: String,
}

#[derive(Clone, Copy, Debug)]
pub struct SeamInfo {
    /// failed attempts are visible in `attempts` (scripted writer) — otherwise
    /// only successful writes are seen and an Err result implies a hidden one
    pub failures_visible: bool,
    /// the case injects no faults at all (enables the greediness rules)
    pub fault_free: bool,
    /// a write made by the final drop may fail invisibly
    pub drop_may_fail_hidden: bool,
}

#[derive(Clone, Debug, Default)]
pub struct Stats {
    pub auto_flushes: usize,
    pub exact_fit: usize,
    pub bypasses: usize,
    pub failed_calls: usize,
    pub failed_attempts: usize,
    pub consecutive_failures: bool,
    pub bypass_failures: usize,
    pub drop_failures: usize,
    pub recovered_after_failure: bool,
    pub explicit_flush_with_pending: usize,
    pub drop_with_pending: bool,
    pub ambiguous_readings: usize,
    pub datagrams: usize,
    pub multi_item_datagrams: usize,
}

fn show(b: &[u8]) -> String {
    let s = String::from_utf8_lossy(b);
    let s: String = s.chars().flat_map(|c| c.escape_default()).collect();
    if s.len() > 80 {
        format!("{}…({} bytes)", &s[..60], b.len())
    } else {
        s
    }
}

/// Can `bytes` be segmented into complete items out of `items` (any order,
/// repetition allowed), total ≤ cap? Used only to classify a mismatch as
/// "wrong metric / duplicate / order" (conservation) vs "partial line" (framing).
fn segmentable(bytes: &[u8], items: &[Vec<u8>], cap: usize) -> bool {
    if bytes.is_empty() || bytes.len() > cap {
        return false;
    }
    let n = bytes.len();
    let mut ok = vec![false; n + 1];
    ok[0] = true;
    for i in 0..n {
        if !ok[i] {
            continue;
        }
        for it in items {
            if !it.is_empty() && bytes[i..].starts_with(it) {
                ok[i + it.len()] = true;
            }
        }
    }
    ok[n]
}

pub struct Verdict {
    pub findings: Vec<Finding>,
    pub stats: Stats,
}

/// Judge a whole history. `cap`: configured capacity, `term`: terminator bytes.
pub fn judge(cap: usize, term: &[u8], ops: &[OpTrace], seam: SeamInfo) -> Verdict {
    let mut findings: Vec<Finding> = Vec::new();
    let mut st = Stats::default();
    // acknowledged buffered items in acceptance order; `heads`: possible numbers
    // of items already written
    let mut acked: Vec<Vec<u8>> = Vec::new();
    let mut heads: BTreeSet<usize> = BTreeSet::new();
    heads.insert(0);
    // every item ever offered (for mismatch classification)
    let mut all_items: Vec<Vec<u8>> = Vec::new();
    let mut all_oversized: Vec<Vec<u8>> = Vec::new();
    let mut had_failure = false;
    let mut prev_attempt_failed = false;
    let mut dead = false; // oracle lost track (after a mismatch): stop judging positions

    macro_rules! find {
        ($rule:expr, $op:expr, $($arg:tt)*) => {
            findings.push(Finding { rule: $rule, op: $op, msg: format!($($arg)*) })
        };
    }

    for (oi, op) in ops.iter().enumerate() {
        if let OpResult::Panicked(p) = &op.result {
            find!(Rule::Panic, oi, "call panicked: {}", p);
            // a panic never is acceptable for any of the writer properties
            find!(Rule::Fault, oi, "call panicked: {}", p);
            break;
        }
        if dead {
            break;
        }
        let (own_item, metric, bypass_ok): (Option<Vec<u8>>, Option<&[u8]>, bool) = match &op.kind {
            OpKind::Emit(m) => {
                let mut it = m.clone();
                it.extend_from_slice(term);
                let by = m.len() + term.len() > cap;
                if by {
                    all_oversized.push(m.clone());
                } else {
                    all_items.push(it.clone());
                }
                (Some(it), Some(m.as_slice()), by)
            }
            _ => (None, None, false),
        };
        let is_emit = metric.is_some();
        // candidate sequence during this op
        let mut seq: Vec<&[u8]> = acked.iter().map(|v| v.as_slice()).collect();
        let own_index = if is_emit && !bypass_ok {
            seq.push(own_item.as_ref().unwrap().as_slice());
            Some(seq.len() - 1)
        } else {
            None
        };
        let fill_at_start: Option<usize> = if heads.len() == 1 {
            let h = *heads.iter().next().unwrap();
            Some(acked[h..].iter().map(|v| v.len()).sum())
        } else {
            None
        };
        let pending_at_start = heads.iter().any(|h| *h < acked.len());
        if is_emit && !bypass_ok {
            if let (Some(fill), Some(own)) = (fill_at_start, own_item.as_ref()) {
                if fill + own.len() == cap {
                    st.exact_fit += 1;
                }
            }
        }
        if bypass_ok {
            st.bypasses += 1;
        }

        // states: (head, bypass_done)
        let mut states: BTreeSet<(usize, bool)> = heads.iter().map(|h| (*h, false)).collect();
        let mut op_failed_attempts: Vec<ErrTok> = Vec::new();
        for (ai, at) in op.attempts.iter().enumerate() {
            st.datagrams += at.err.is_none() as usize;
            if let Some(e) = &at.err {
                st.failed_attempts += 1;
                if prev_attempt_failed {
                    st.consecutive_failures = true;
                }
                op_failed_attempts.push(e.clone());
                had_failure = true;
                match op.kind {
                    OpKind::Drop => st.drop_failures += 1,
                    _ => {}
                }
            }
            prev_attempt_failed = at.err.is_some();
            if is_emit && !bypass_ok && at.err.is_none() {
                st.auto_flushes += 1;
            }
            let mut next: BTreeSet<(usize, bool)> = BTreeSet::new();
            let mut readings = 0;
            for &(h, bd) in &states {
                // reading A: concatenation of the first k>=1 items of seq[h..]
                let mut len = 0usize;
                let mut k = 0usize;
                let mut matched = false;
                while h + k < seq.len() {
                    let it = seq[h + k];
                    if at.bytes.len() < len + it.len() || at.bytes[len..len + it.len()] != *it {
                        break;
                    }
                    len += it.len();
                    k += 1;
                    if len == at.bytes.len() {
                        matched = true;
                        // with empty items (empty metric + empty terminator) several k
                        // match; the property is not judged with an empty terminator
                        break;
                    }
                }
                if matched && k >= 1 {
                    readings += 1;
                    if at.bytes.len() > cap {
                        find!(
                            Rule::Framing,
                            oi,
                            "write #{} of {} bytes exceeds the capacity {}: '{}'",
                            ai,
                            at.bytes.len(),
                            cap,
                            show(&at.bytes)
                        );
                    }
                    if k >= 2 {
                        st.multi_item_datagrams += 1;
                    }
                    let includes_own = own_index.map_or(false, |oi_| h + k > oi_);
                    // greediness + "next successful write carries everything pending"
                    if is_emit {
                        if seam.fault_free || seam.failures_visible {
                            if let Some(nx) = seq.get(h + k) {
                                if at.bytes.len() + nx.len() <= cap {
                                    find!(
                                        Rule::Greedy,
                                        oi,
                                        "write #{} ({} bytes) was made during an emit although the next metric+terminator ({} bytes) still fits into capacity {}",
                                        ai,
                                        at.bytes.len(),
                                        nx.len(),
                                        cap
                                    );
                                }
                            } else if includes_own && at.bytes.len() != cap {
                                find!(
                                    Rule::Greedy,
                                    oi,
                                    "write #{} ({} bytes) sent the emitted metric at once although the buffer (capacity {}) was not exactly full",
                                    ai,
                                    at.bytes.len(),
                                    cap
                                );
                            }
                        }
                    } else {
                        // flush / drop: everything pending goes out in one write
                        if h + k < seq.len() {
                            let rule = if seam.fault_free { Rule::Greedy } else { Rule::Fault };
                            find!(
                                rule,
                                oi,
                                "write #{} carried only {} of the {} pending metrics although all of them fit into one datagram",
                                ai,
                                k,
                                seq.len() - h
                            );
                        }
                    }
                    if had_failure && at.err.is_none() && is_emit && !includes_own && h + k < acked.len() {
                        find!(
                            Rule::Fault,
                            oi,
                            "after a failed write the next successful write #{} carried only {} of the {} metrics accepted earlier",
                            ai,
                            k,
                            acked.len() - h
                        );
                    }
                    if at.err.is_none() {
                        if had_failure && h < acked.len() {
                            st.recovered_after_failure = true;
                        }
                        next.insert((h + k, bd));
                    } else {
                        next.insert((h, bd));
                    }
                }
                // reading B: the oversized metric alone, unmodified, no terminator
                if bypass_ok && !bd && Some(at.bytes.as_slice()) == metric {
                    readings += 1;
                    if at.err.is_none() {
                        next.insert((h, true));
                    } else {
                        st.bypass_failures += 1;
                        next.insert((h, false));
                    }
                }
            }
            if readings > 1 {
                st.ambiguous_readings += 1;
            }
            if next.is_empty() {
                // classify the mismatch
                let mut pool = all_items.clone();
                if let Some(o) = &own_item {
                    pool.push(o.clone());
                }
                let shape_ok = segmentable(&at.bytes, &pool, cap) || all_oversized.iter().any(|m| *m == at.bytes);
                let pend: Vec<String> = states
                    .iter()
                    .take(1)
                    .flat_map(|(h, _)| seq[*h..].iter().map(|i| show(i)).collect::<Vec<_>>())
                    .collect();
                if !shape_ok {
                    find!(
                        Rule::Framing,
                        oi,
                        "write #{} '{}' is neither a concatenation of whole pending metrics each followed by the terminator (pending: {:?}) nor the oversized metric alone",
                        ai,
                        show(&at.bytes),
                        pend
                    );
                }
                find!(
                    Rule::Conservation,
                    oi,
                    "write #{} '{}' does not continue the sequence of accepted-and-unwritten metrics (pending: {:?}): a metric was lost, duplicated, reordered or altered",
                    ai,
                    show(&at.bytes),
                    pend
                );
                find!(Rule::Fault, oi, "write #{} '{}' does not match the pending metrics {:?}", ai, show(&at.bytes), pend);
                dead = true;
                break;
            }
            states = next;
        }
        if dead {
            break;
        }

        // greediness G1: an emit that fits into the remaining room writes nothing
        if (seam.fault_free || seam.failures_visible) && is_emit && !bypass_ok {
            if let (Some(fill), Some(own)) = (fill_at_start, own_item.as_ref()) {
                if fill + own.len() < cap && !op.attempts.is_empty() {
                    find!(
                        Rule::Greedy,
                        oi,
                        "emit of {} bytes (+terminator) wrote to the socket although {} buffered + {} < capacity {}",
                        own.len() - term.len(),
                        fill,
                        own.len(),
                        cap
                    );
                }
            }
        }

        // apply the result
        let err_matches = |e: &ErrTok| op_failed_attempts.iter().any(|f| f == e);
        match (&op.kind, &op.result) {
            (OpKind::Emit(m), OpResult::Wrote(n)) => {
                if *n != m.len() {
                    find!(Rule::Conservation, oi, "emit of a {}-byte metric returned Ok({})", m.len(), n);
                    if !seam.fault_free {
                        find!(Rule::Fault, oi, "emit of a {}-byte metric returned Ok({}): neither the metric's length nor an error", m.len(), n);
                    }
                }
                if bypass_ok {
                    let ok: BTreeSet<(usize, bool)> = states.iter().copied().filter(|s| s.1).collect();
                    if ok.is_empty() {
                        if !seam.fault_free {
                            find!(
                                Rule::Fault,
                                oi,
                                "oversized metric '{}' was acknowledged (Ok) although it was not written during its own emit: lost without being reported",
                                show(m)
                            );
                        }
                        find!(
                            Rule::Conservation,
                            oi,
                            "oversized metric '{}' acknowledged but not written during its own emit",
                            show(m)
                        );
                        dead = true;
                    }
                    heads = ok.iter().map(|s| s.0).collect();
                } else {
                    acked.push(own_item.clone().unwrap());
                    heads = states.iter().map(|s| s.0).collect();
                }
            }
            (OpKind::Emit(m), OpResult::Err(e)) => {
                st.failed_calls += 1;
                had_failure = true;
                if seam.failures_visible && !err_matches(e) {
                    find!(
                        Rule::Fault,
                        oi,
                        "emit returned {:?} which is not the error of any failed write made during this call (failed: {:?})",
                        e,
                        op_failed_attempts
                    );
                    if seam.fault_free {
                        find!(Rule::Conservation, oi, "emit failed with {:?} although no write failed", e);
                    }
                }
                // own metric must not have been written
                let ok: BTreeSet<(usize, bool)> = if bypass_ok {
                    states.iter().copied().filter(|s| !s.1).collect()
                } else {
                    states.iter().copied().filter(|s| s.0 <= acked.len()).collect()
                };
                if ok.is_empty() {
                    find!(Rule::Fault, oi, "emit of '{}' returned an error but the metric was written", show(m));
                    dead = true;
                }
                heads = ok.iter().map(|s| s.0).collect();
            }
            (OpKind::Flush, OpResult::Flushed) => {
                if pending_at_start {
                    st.explicit_flush_with_pending += 1;
                }
                let ok: BTreeSet<usize> = states.iter().map(|s| s.0).filter(|h| *h == acked.len()).collect();
                if ok.is_empty() {
                    if had_failure {
                        find!(
                            Rule::Fault,
                            oi,
                            "after a failed write, flush returned Ok without writing the {} metrics accepted earlier",
                            acked.len() - states.iter().map(|s| s.0).max().unwrap_or(0)
                        );
                    }
                    find!(
                        Rule::Conservation,
                        oi,
                        "flush returned Ok but {} accepted metrics are still unwritten",
                        acked.len() - states.iter().map(|s| s.0).max().unwrap_or(0)
                    );
                    dead = true;
                }
                heads = ok;
            }
            (OpKind::Flush, OpResult::Err(e)) => {
                st.failed_calls += 1;
                had_failure = true;
                if seam.failures_visible && !err_matches(e) {
                    find!(
                        Rule::Fault,
                        oi,
                        "flush returned {:?} which is not the error of any failed write made during this call (failed: {:?})",
                        e,
                        op_failed_attempts
                    );
                }
                heads = states.iter().map(|s| s.0).collect();
            }
            (OpKind::Drop, _) => {
                if pending_at_start {
                    st.drop_with_pending = true;
                }
                let any_failed = !op_failed_attempts.is_empty() || seam.drop_may_fail_hidden;
                let done = states.iter().any(|s| s.0 == acked.len());
                if !any_failed && !done {
                    find!(
                        Rule::Conservation,
                        oi,
                        "drop left {} accepted metrics unwritten",
                        acked.len() - states.iter().map(|s| s.0).max().unwrap_or(0)
                    );
                }
                heads = states.iter().map(|s| s.0).collect();
            }
            (k, r) => {
                find!(Rule::Conservation, oi, "unexpected result {:?} for {:?}", r, k);
            }
        }
        // an Ok result although a write failed and was not retried successfully is
        // fine (Interrupted is retried by std); nothing to check here.
        let _ = had_failure;
    }
    Verdict { findings, stats: st }
}
