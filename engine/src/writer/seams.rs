//! Seams through which a `WriterCase` is run against the real code.

use super::case::{WOp, WriterCase};
use super::oracle::{Attempt, ErrTok, OpKind, OpResult, OpTrace};
use crate::util::{self, catch};
use cadence::ext::MultiLineWriter;
use cadence::{BufferedSpyMetricSink, MetricSink};
use crossbeam_channel::Receiver;
use std::cell::RefCell;
use std::io::{self, Write};
use std::rc::Rc;

#[derive(Default)]
struct Rec {
    attempts: Vec<Attempt>,
    script: Vec<Option<u8>>,
    n: usize,
}

/// all-or-nothing scripted writer that records every attempt
struct ScriptedWriter(Rc<RefCell<Rec>>);

impl Write for ScriptedWriter {
    fn write(&mut self, buf: &[u8]) -> io::Result<usize> {
        let mut r = self.0.borrow_mut();
        let idx = r.n;
        r.n += 1;
        match r.script.get(idx).copied().flatten() {
            Some(kind) if kind >= 100 => {
                // short write: accept a strict prefix (possibly nothing)
                let n = ((kind - 100) as usize).min(buf.len().saturating_sub(1));
                r.attempts.push(Attempt {
                    bytes: buf[..n].to_vec(),
                    err: None,
                });
                Ok(n)
            }
            Some(kind) => {
                let e = util::token_error(kind, idx as u64);
                r.attempts.push(Attempt {
                    bytes: buf.to_vec(),
                    err: Some(ErrTok {
                        kind: e.kind(),
                        token: Some(idx as u64),
                    }),
                });
                Err(e)
            }
            None => {
                r.attempts.push(Attempt {
                    bytes: buf.to_vec(),
                    err: None,
                });
                Ok(buf.len())
            }
        }
    }
    fn flush(&mut self) -> io::Result<()> {
        Ok(())
    }
}

pub fn errtok(e: &io::Error) -> ErrTok {
    let (kind, token) = util::io_error_token(e);
    ErrTok { kind, token }
}

/// Seam (a): `cadence::ext::MultiLineWriter` over the scripted writer.
pub fn run_mlw(case: &WriterCase) -> Vec<OpTrace> {
    let rec = Rc::new(RefCell::new(Rec {
        script: case.faults.clone(),
        ..Rec::default()
    }));
    let mut out = Vec::new();
    let w = catch(|| MultiLineWriter::with_ending(ScriptedWriter(rec.clone()), case.cap, &case.term));
    let mut w = match w {
        Ok(w) => w,
        Err(p) => {
            out.push(OpTrace {
                kind: OpKind::Flush,
                attempts: vec![],
                result: OpResult::Panicked(format!("constructor: {}", p)),
            });
            return out;
        }
    };
    for op in &case.ops {
        match op {
            WOp::Emit(m) => {
                let r = catch(|| w.write(m.as_bytes()));
                let attempts = std::mem::take(&mut rec.borrow_mut().attempts);
                let result = match r {
                    Ok(Ok(n)) => OpResult::Wrote(n),
                    Ok(Err(e)) => OpResult::Err(errtok(&e)),
                    Err(p) => OpResult::Panicked(p),
                };
                let stop = matches!(result, OpResult::Panicked(_));
                out.push(OpTrace {
                    kind: OpKind::Emit(m.as_bytes().to_vec()),
                    attempts,
                    result,
                });
                if stop {
                    std::mem::forget(w);
                    return out;
                }
            }
            WOp::CloneDrop => {}
            WOp::Flush => {
                let r = catch(|| w.flush());
                let attempts = std::mem::take(&mut rec.borrow_mut().attempts);
                let result = match r {
                    Ok(Ok(())) => OpResult::Flushed,
                    Ok(Err(e)) => OpResult::Err(errtok(&e)),
                    Err(p) => OpResult::Panicked(p),
                };
                let stop = matches!(result, OpResult::Panicked(_));
                out.push(OpTrace {
                    kind: OpKind::Flush,
                    attempts,
                    result,
                });
                if stop {
                    std::mem::forget(w);
                    return out;
                }
            }
        }
    }
    let r = catch(move || drop(w));
    let attempts = std::mem::take(&mut rec.borrow_mut().attempts);
    out.push(OpTrace {
        kind: OpKind::Drop,
        attempts,
        result: match r {
            Ok(()) => OpResult::None,
            Err(p) => OpResult::Panicked(p),
        },
    });
    out
}

/// Generic driver for a `MetricSink` whose successful writes can be drained
/// after every operation (unbounded spy channel, sockets).
pub fn run_on_sink(
    case: &WriterCase,
    sink: Box<dyn MetricSink>,
    via_client_flush: Option<&dyn Fn() -> io::Result<()>>,
    drain: &mut dyn FnMut(bool) -> Vec<Vec<u8>>,
) -> Vec<OpTrace> {
    let _ = via_client_flush;
    let mut out = Vec::new();
    let to_attempts = |v: Vec<Vec<u8>>| -> Vec<Attempt> { v.into_iter().map(|bytes| Attempt { bytes, err: None }).collect() };
    for op in &case.ops {
        match op {
            WOp::Emit(m) => {
                let r = catch(|| sink.emit(m));
                let attempts = to_attempts(drain(false));
                let result = match r {
                    Ok(Ok(n)) => OpResult::Wrote(n),
                    Ok(Err(e)) => OpResult::Err(errtok(&e)),
                    Err(p) => OpResult::Panicked(p),
                };
                let stop = matches!(result, OpResult::Panicked(_));
                out.push(OpTrace {
                    kind: OpKind::Emit(m.as_bytes().to_vec()),
                    attempts,
                    result,
                });
                if stop {
                    std::mem::forget(sink);
                    return out;
                }
            }
            WOp::CloneDrop => {}
            WOp::Flush => {
                let r = catch(|| sink.flush());
                let attempts = to_attempts(drain(false));
                let result = match r {
                    Ok(Ok(())) => OpResult::Flushed,
                    Ok(Err(e)) => OpResult::Err(errtok(&e)),
                    Err(p) => OpResult::Panicked(p),
                };
                let stop = matches!(result, OpResult::Panicked(_));
                out.push(OpTrace {
                    kind: OpKind::Flush,
                    attempts,
                    result,
                });
                if stop {
                    std::mem::forget(sink);
                    return out;
                }
            }
        }
    }
    let r = catch(move || drop(sink));
    let attempts = to_attempts(drain(true));
    out.push(OpTrace {
        kind: OpKind::Drop,
        attempts,
        result: match r {
            Ok(()) => OpResult::None,
            Err(p) => OpResult::Panicked(p),
        },
    });
    out
}

pub fn drain_rx(rx: &Receiver<Vec<u8>>) -> Vec<Vec<u8>> {
    let mut v = Vec::new();
    while let Ok(m) = rx.try_recv() {
        v.push(m);
    }
    v
}

/// Seam (b): BufferedSpyMetricSink, unbounded channel (terminator is "\n").
/// `default_ctor`: use `BufferedSpyMetricSink::new()` (capacity must be 512).
pub fn run_spy(case: &WriterCase, default_ctor: bool) -> Vec<OpTrace> {
    let (rx, sink) = if default_ctor {
        BufferedSpyMetricSink::new()
    } else {
        BufferedSpyMetricSink::with_capacity(None, Some(case.cap))
    };
    let mut drain = |_final: bool| drain_rx(&rx);
    run_on_sink(case, Box::new(sink), None, &mut drain)
}

/// Seam (b'): BufferedSpyMetricSink over a *bounded* channel used as a fault
/// injector: the receiver is only drained where the fault script says so
/// (`faults[i] == Some(_)` before op i means "do not drain before this op";
/// None means "drain everything first"). A write fails iff the channel is full.
/// Messages are attributed to operations afterwards by FIFO position.
pub fn run_spy_bounded(case: &WriterCase, chan_cap: usize) -> (Vec<OpTrace>, bool) {
    let (rx, sink) = BufferedSpyMetricSink::with_capacity(Some(chan_cap), Some(case.cap));
    let mut received: Vec<Vec<u8>> = Vec::new();
    let mut new_counts: Vec<usize> = Vec::new();
    let mut results: Vec<(OpKind, OpResult)> = Vec::new();
    let mut in_chan = 0usize;
    let mut panicked = false;
    for (i, op) in case.ops.iter().enumerate() {
        let hold = case.faults.get(i).copied().flatten().is_some();
        if !hold {
            let got = drain_rx(&rx);
            in_chan = 0;
            received.extend(got);
        }
        if matches!(op, WOp::CloneDrop) {
            new_counts.push(0);
            results.push((OpKind::Flush, OpResult::Flushed));
            continue;
        }
        let (kind, result) = match op {
            WOp::CloneDrop => unreachable!(),
            WOp::Emit(m) => {
                let r = catch(|| sink.emit(m));
                (
                    OpKind::Emit(m.as_bytes().to_vec()),
                    match r {
                        Ok(Ok(n)) => OpResult::Wrote(n),
                        Ok(Err(e)) => OpResult::Err(errtok(&e)),
                        Err(p) => OpResult::Panicked(p),
                    },
                )
            }
            WOp::Flush => {
                let r = catch(|| sink.flush());
                (
                    OpKind::Flush,
                    match r {
                        Ok(Ok(())) => OpResult::Flushed,
                        Ok(Err(e)) => OpResult::Err(errtok(&e)),
                        Err(p) => OpResult::Panicked(p),
                    },
                )
            }
        };
        let now = rx.len();
        new_counts.push(now - in_chan);
        in_chan = now;
        if matches!(result, OpResult::Panicked(_)) {
            panicked = true;
            results.push((kind, result));
            break;
        }
        results.push((kind, result));
    }
    let mut drop_may_fail = false;
    if !panicked {
        // drop: make room only if the script says so
        let hold = case.faults.get(case.ops.len()).copied().flatten().is_some();
        if !hold {
            received.extend(drain_rx(&rx));
            in_chan = 0;
        }
        drop_may_fail = in_chan >= chan_cap;
        let r = catch(move || drop(sink));
        let now = rx.len();
        new_counts.push(now - in_chan);
        results.push((
            OpKind::Drop,
            match r {
                Ok(()) => OpResult::None,
                Err(p) => OpResult::Panicked(p),
            },
        ));
    } else {
        std::mem::forget(sink);
    }
    received.extend(drain_rx(&rx));
    // attribute by FIFO position
    let mut it = received.into_iter();
    let mut out = Vec::new();
    for ((kind, result), n) in results.into_iter().zip(new_counts.into_iter()) {
        let attempts: Vec<Attempt> = (0..n).filter_map(|_| it.next()).map(|bytes| Attempt { bytes, err: None }).collect();
        out.push(OpTrace { kind, attempts, result });
    }
    (out, drop_may_fail)
}
