//! Line-buffered writer family: C05 (framing), C06 (conservation), C07 (faults),
//! C19 (greedy packing).

pub mod case;
pub mod oracle;
pub mod seams;

use crate::driver::{Campaign, Ctx, Outcome, Tier};
use crate::util;
use case::*;
use oracle::{Rule, SeamInfo};
use proptest::prelude::*;

#[derive(Clone, Copy, Debug, PartialEq, Eq)]
pub enum Seam {
    /// ext::MultiLineWriter over the scripted recording writer
    Mlw,
    /// ext::MultiLineWriter, capacities around |terminator|
    MlwTiny,
    /// BufferedSpyMetricSink::with_capacity(None, Some(cap))
    Spy,
    /// BufferedSpyMetricSink::new() (default capacity 512)
    SpyDefault,
    /// bounded spy channel as fault injector
    SpyBounded,
    /// StatsdClient over BufferedSpyMetricSink, flush through the client
    ClientSpy,
    /// StatsdClient over QueuingMetricSink over (recording) BufferedSpyMetricSink
    QueueClientSpy,
}

pub struct WriterCampaign {
    pub name: &'static str,
    pub focus: Rule,
    pub seam: Seam,
    pub gen: GenCfg,
}

pub fn gen_default(max_ops: usize, faults: bool) -> GenCfg {
    GenCfg {
        max_ops,
        faults,
        big_caps: 1,
        fixed_cap: None,
        fixed_term: None,
        flush_weight: 2,
        clone_drop_weight: 0,
        short_writes: false,
    }
}

impl WriterCampaign {
    pub fn new(name: &'static str, focus: Rule, seam: Seam, gen: GenCfg) -> Self {
        WriterCampaign { name, focus, seam, gen }
    }
}

pub fn nontrivial(focus: Rule, st: &oracle::Stats) -> bool {
    match focus {
        Rule::Framing => st.auto_flushes >= 1 && (st.exact_fit >= 1 || st.bypasses >= 1),
        Rule::Conservation => st.auto_flushes >= 2 && (st.explicit_flush_with_pending >= 1 || st.drop_with_pending),
        Rule::Fault => st.failed_calls >= 1 && st.recovered_after_failure,
        Rule::Greedy => st.auto_flushes >= 3,
        Rule::Panic => st.bypasses >= 1 || st.auto_flushes >= 1,
    }
}

pub fn classes(st: &oracle::Stats, case: &WriterCase) -> Vec<&'static str> {
    let mut c = Vec::new();
    if st.auto_flushes >= 1 {
        c.push("has automatic flush");
    }
    if st.auto_flushes >= 3 {
        c.push(">=3 automatic flushes");
    }
    if st.exact_fit >= 1 {
        c.push("exact-fit metric");
    }
    if st.bypasses >= 1 {
        c.push("oversized bypass");
    }
    if case.cap <= case.term.len() {
        c.push("capacity <= |terminator|");
    }
    if st.failed_calls >= 1 {
        c.push("failed call");
    }
    if st.consecutive_failures {
        c.push("consecutive failed writes");
    }
    if st.bypass_failures >= 1 {
        c.push("failure on bypass path");
    }
    if st.drop_failures >= 1 {
        c.push("failure during drop");
    }
    if st.recovered_after_failure {
        c.push("earlier metrics written after a failure");
    }
    if st.ambiguous_readings >= 1 {
        c.push("ambiguous write (two readings followed)");
    }
    if st.multi_item_datagrams >= 1 {
        c.push("datagram with >=2 metrics");
    }
    if st.explicit_flush_with_pending >= 1 {
        c.push("explicit flush with data pending");
    }
    c
}

impl Campaign for WriterCampaign {
    type Case = WriterCase;
    fn name(&self) -> &'static str {
        self.name
    }
    fn strategy(&self, _tier: Tier) -> BoxedStrategy<WriterCase> {
        let mut g = self.gen;
        match self.seam {
            Seam::Mlw => writer_case(g),
            Seam::MlwTiny => tiny_cap_case(g),
            Seam::Spy | Seam::ClientSpy | Seam::SpyBounded | Seam::QueueClientSpy => {
                g.fixed_term = Some("\n");
                writer_case(g)
            }
            Seam::SpyDefault => {
                g.fixed_term = Some("\n");
                g.fixed_cap = Some(512);
                writer_case(g)
            }
        }
    }
    fn check(&self, case: &WriterCase, ctx: &Ctx) -> Outcome {
        let term: Vec<u8> = match self.seam {
            Seam::Mlw | Seam::MlwTiny => case.term.as_bytes().to_vec(),
            _ => b"\n".to_vec(),
        };
        if term.is_empty() && self.focus != Rule::Panic {
            // the property is vacuous with an empty terminator (C20 covers it)
            return Outcome::ok();
        }
        if term.is_empty() {
            // C20: only panics are judged
            let trace = seams::run_mlw(case);
            let p = trace.iter().find_map(|t| match &t.result {
                oracle::OpResult::Panicked(p) => Some(p.clone()),
                _ => None,
            });
            return Outcome {
                verdict: match p {
                    None => Ok(()),
                    Some(p) => Err(format!("call panicked: {}", p)),
                },
                nontrivial: true,
                fingerprint: util::hash_json(case),
                classes: vec!["empty terminator"],
            };
        }
        if self.focus == Rule::Panic && case.faults.iter().flatten().any(|k| *k >= 100) {
            // short writes of the underlying writer: only "nothing panics" is judged
            let trace = seams::run_mlw(case);
            let p = trace.iter().find_map(|t| match &t.result {
                oracle::OpResult::Panicked(p) => Some(p.clone()),
                _ => None,
            });
            return Outcome {
                verdict: match p {
                    None => Ok(()),
                    Some(p) => Err(format!("call panicked (the underlying writer made a short write): {}", p)),
                },
                nontrivial: true,
                fingerprint: util::hash_json(case),
                classes: vec!["underlying writer makes short writes (Ok(n), n < len)"],
            };
        }
        let (trace, info) = match self.seam {
            Seam::Mlw | Seam::MlwTiny => (
                seams::run_mlw(case),
                SeamInfo {
                    failures_visible: true,
                    fault_free: case.faults.iter().all(|f| f.is_none()),
                    drop_may_fail_hidden: false,
                },
            ),
            Seam::Spy => (
                seams::run_spy(case, false),
                SeamInfo {
                    failures_visible: false,
                    fault_free: true,
                    drop_may_fail_hidden: false,
                },
            ),
            Seam::SpyDefault => (
                seams::run_spy(case, true),
                SeamInfo {
                    failures_visible: false,
                    fault_free: true,
                    drop_may_fail_hidden: false,
                },
            ),
            Seam::SpyBounded => {
                let chan = 1 + (case.cap % 3);
                let (t, drop_may_fail) = seams::run_spy_bounded(case, chan);
                (
                    t,
                    SeamInfo {
                        failures_visible: false,
                        fault_free: false,
                        drop_may_fail_hidden: drop_may_fail,
                    },
                )
            }
            Seam::QueueClientSpy => (
                queue_client_spy(case, ctx.w()),
                SeamInfo {
                    failures_visible: false,
                    fault_free: true,
                    drop_may_fail_hidden: false,
                },
            ),
            Seam::ClientSpy => (
                client_spy(case),
                SeamInfo {
                    failures_visible: false,
                    fault_free: true,
                    drop_may_fail_hidden: false,
                },
            ),
        };
        let v = oracle::judge(case.cap, &term, &trace, info);
        let verdict = match v
            .findings
            .iter()
            .find(|f| (f.rule == self.focus || f.rule == Rule::Panic) && !crate::known::absorb(ctx.property, &f.msg))
        {
            None => Ok(()),
            Some(f) => Err(format!("op #{}: {}", f.op, f.msg)),
        };
        Outcome {
            verdict,
            nontrivial: nontrivial(self.focus, &v.stats),
            fingerprint: util::hash_json(case),
            classes: classes(&v.stats, case),
        }
    }
}

/// C06 seam: the same history through `StatsdClient` over a buffered spy sink,
/// flushing with `client.flush()`. The emitted metric is `<key>:1|c`.
fn client_spy(case: &WriterCase) -> Vec<oracle::OpTrace> {
    use cadence::prelude::*;
    use cadence::{BufferedSpyMetricSink, Metric, StatsdClient};
    use oracle::{Attempt, OpKind, OpResult, OpTrace};
    let (rx, sink) = BufferedSpyMetricSink::with_capacity(None, Some(case.cap));
    let client = StatsdClient::from_sink("", sink);
    let mut out = Vec::new();
    let att = |v: Vec<Vec<u8>>| -> Vec<Attempt> { v.into_iter().map(|bytes| Attempt { bytes, err: None }).collect() };
    for op in &case.ops {
        match op {
            WOp::Emit(key) => {
                let line = format!("{}:1|c", key);
                let r = util::catch(|| client.count(key.as_str(), 1i64));
                let attempts = att(seams::drain_rx(&rx));
                let result = match r {
                    Ok(Ok(m)) => {
                        if m.as_metric_str() == line {
                            OpResult::Wrote(line.len())
                        } else {
                            OpResult::Panicked(format!("client formatted '{}' instead of '{}'", m.as_metric_str(), line))
                        }
                    }
                    Ok(Err(e)) => OpResult::Err(oracle::ErrTok {
                        kind: std::io::ErrorKind::Other,
                        token: Some(util::hash_str(&e.to_string())),
                    }),
                    Err(p) => OpResult::Panicked(p),
                };
                out.push(OpTrace {
                    kind: OpKind::Emit(line.into_bytes()),
                    attempts,
                    result,
                });
            }
            WOp::CloneDrop => continue,
            WOp::Flush => {
                let r = util::catch(|| client.flush());
                let attempts = att(seams::drain_rx(&rx));
                out.push(OpTrace {
                    kind: OpKind::Flush,
                    attempts,
                    result: match r {
                        Ok(Ok(())) => OpResult::Flushed,
                        Ok(Err(e)) => OpResult::Err(oracle::ErrTok {
                            kind: std::io::ErrorKind::Other,
                            token: Some(util::hash_str(&e.to_string())),
                        }),
                        Err(p) => OpResult::Panicked(p),
                    },
                });
            }
        }
        if matches!(out.last().map(|o| &o.result), Some(OpResult::Panicked(_))) {
            std::mem::forget(client);
            return out;
        }
    }
    let r = util::catch(move || drop(client));
    out.push(OpTrace {
        kind: OpKind::Drop,
        attempts: att(seams::drain_rx(&rx)),
        result: match r {
            Ok(()) => OpResult::None,
            Err(p) => OpResult::Panicked(p),
        },
    });
    out
}

/// C07 thorough: for a generated fault-free op list enumerate the whole
/// fail/succeed tree over the first `depth` underlying write attempts (the
/// number of attempts depends on earlier outcomes, so this is a DFS).
pub struct FaultTree {
    pub depth: usize,
}

impl Campaign for FaultTree {
    type Case = WriterCase;
    fn name(&self) -> &'static str {
        "mlw-fault-tree"
    }
    fn strategy(&self, _tier: Tier) -> BoxedStrategy<WriterCase> {
        let mut g = gen_default(10, false);
        g.big_caps = 0;
        writer_case(g)
    }
    fn check(&self, case: &WriterCase, ctx: &Ctx) -> Outcome {
        if case.term.is_empty() {
            return Outcome::ok();
        }
        let mut path: Vec<bool> = Vec::new();
        let mut runs = 0u64;
        let mut any_nt = false;
        let mut classes_acc: Vec<&'static str> = Vec::new();
        loop {
            let mut c = case.clone();
            c.faults = path.iter().enumerate().map(|(i, f)| if *f { Some((i % 12) as u8) } else { None }).collect();
            let trace = seams::run_mlw(&c);
            let n_attempts: usize = trace.iter().map(|t| t.attempts.len()).sum();
            let v = oracle::judge(
                c.cap,
                c.term.as_bytes(),
                &trace,
                SeamInfo {
                    failures_visible: true,
                    fault_free: !path.iter().any(|f| *f),
                    drop_may_fail_hidden: false,
                },
            );
            runs += 1;
            any_nt |= nontrivial(Rule::Fault, &v.stats);
            if runs == 1 {
                classes_acc = classes(&v.stats, &c);
            }
            if let Some(f) = v
                .findings
                .iter()
                .find(|f| (f.rule == Rule::Fault || f.rule == Rule::Panic) && !crate::known::absorb(ctx.property, &f.msg))
            {
                return Outcome {
                    verdict: Err(format!("fault script {:?}: op #{}: {}", c.faults, f.op, f.msg)),
                    nontrivial: true,
                    fingerprint: util::hash_json(&c),
                    classes: vec![],
                };
            }
            // extend the explored path with the succeed-decisions that were taken implicitly
            let lim = n_attempts.min(self.depth);
            while path.len() < lim {
                path.push(false);
            }
            // next leaf: flip the last `false` to `true`, drop what follows
            match path.iter().rposition(|f| !*f) {
                Some(i) => {
                    path[i] = true;
                    path.truncate(i + 1);
                }
                None => break,
            }
        }
        classes_acc.push("whole fail/succeed tree enumerated");
        Outcome {
            verdict: Ok(()),
            nontrivial: any_nt,
            fingerprint: util::hash_json(case),
            classes: classes_acc,
        }
    }
}


/// C06 seam (c): the history through `StatsdClient` over a `QueuingMetricSink`
/// over a recording wrapper around a buffered spy sink. The wrapper signals when
/// the inner emit has returned, so "emitting into the buffered sink returned Ok"
/// is an observed event before the flush through the queue is issued.
fn queue_client_spy(case: &WriterCase, w: std::time::Duration) -> Vec<oracle::OpTrace> {
    use crate::sockets::{Recording, ReleaseSignal};
    use cadence::prelude::*;
    use cadence::{BufferedSpyMetricSink, QueuingMetricSink, StatsdClient};
    use oracle::{Attempt, OpKind, OpResult, OpTrace};
    use std::sync::atomic::{AtomicUsize, Ordering};
    use std::sync::{Arc, Mutex};
    use std::time::Instant;
    let (rx, spy) = BufferedSpyMetricSink::with_capacity(None, Some(case.cap));
    let log = Arc::new(Mutex::new(Vec::new()));
    let done = Arc::new(AtomicUsize::new(0));
    let released = Arc::new(AtomicUsize::new(0));
    let rec = Recording {
        inner: spy,
        log: log.clone(),
        done: done.clone(),
        released: ReleaseSignal(released.clone()),
    };
    // every public constructor / builder path of the queuing sink must forward flush()
    let q: QueuingMetricSink = crate::queue::build_queuing(rec, util::hash_json(case));
    let client = StatsdClient::from_sink("", q.clone());
    let att = |v: Vec<Vec<u8>>| -> Vec<Attempt> { v.into_iter().map(|bytes| Attempt { bytes, err: None }).collect() };
    let mut out = Vec::new();
    let mut n = 0usize;
    for op in &case.ops {
        match op {
            WOp::Emit(key) => {
                let line = format!("{}:1|c", key);
                let r = util::catch(|| client.count(key.as_str(), 1i64));
                let result = match r {
                    Ok(Ok(_)) => {
                        n += 1;
                        let deadline = Instant::now() + w;
                        while done.load(Ordering::SeqCst) < n && Instant::now() < deadline {
                            std::thread::yield_now();
                        }
                        if done.load(Ordering::SeqCst) < n {
                            OpResult::Panicked("queued metric did not reach the buffered sink within W".into())
                        } else {
                            match log.lock().unwrap()[n - 1].clone() {
                                Ok(k) => OpResult::Wrote(k),
                                Err(e) => OpResult::Err(e),
                            }
                        }
                    }
                    Ok(Err(e)) => OpResult::Panicked(format!("unbounded queuing sink refused: {}", e)),
                    Err(p) => OpResult::Panicked(p),
                };
                out.push(OpTrace {
                    kind: OpKind::Emit(line.into_bytes()),
                    attempts: att(seams::drain_rx(&rx)),
                    result,
                });
            }
            WOp::CloneDrop => {
                // a clone of the queuing handle comes and goes: the wrapped buffered sink must not
                // be touched (in particular not flushed). Recorded as an emit of nothing that makes
                // no write; a datagram appearing here is attributed to the next op and judged there.
                let r = util::catch(|| drop(q.clone()));
                if let Err(p) = r {
                    out.push(OpTrace {
                        kind: OpKind::Flush,
                        attempts: vec![],
                        result: OpResult::Panicked(p),
                    });
                }
                std::thread::sleep(std::time::Duration::from_micros(50));
            }
            WOp::Flush => {
                let r = util::catch(|| client.flush());
                out.push(OpTrace {
                    kind: OpKind::Flush,
                    attempts: att(seams::drain_rx(&rx)),
                    result: match r {
                        Ok(Ok(())) => OpResult::Flushed,
                        Ok(Err(e)) => OpResult::Err(oracle::ErrTok {
                            kind: std::io::ErrorKind::Other,
                            token: Some(util::hash_str(&e.to_string())),
                        }),
                        Err(p) => OpResult::Panicked(p),
                    },
                });
            }
        }
        if matches!(out.last().map(|o| &o.result), Some(OpResult::Panicked(_))) {
            std::mem::forget(client);
            return out;
        }
    }
    let r = util::catch(move || {
        drop(client);
        drop(q);
    });
    let deadline = Instant::now() + w;
    while released.load(Ordering::SeqCst) == 0 && Instant::now() < deadline {
        std::thread::yield_now();
    }
    let result = match r {
        Ok(()) if released.load(Ordering::SeqCst) == 0 => OpResult::Panicked("wrapped buffered sink was not dropped within W after the client was dropped".into()),
        Ok(()) => OpResult::None,
        Err(p) => OpResult::Panicked(p),
    };
    out.push(OpTrace {
        kind: OpKind::Drop,
        attempts: att(seams::drain_rx(&rx)),
        result,
    });
    out
}
