//! C17: the statsd_* macros, one fresh child process per generated global
//! configuration (the global default client can be set once per process).

use crate::driver::{Campaign, Ctx, Outcome, Tier};
use crate::fmt::case::*;
use crate::fmt::exec::{ErrInfo, ScriptedSinkHandle};
use crate::fmt::model;
use crate::util;
use proptest::prelude::*;
use serde::{Deserialize, Serialize};
use std::cell::Cell;
use std::io::{Read, Write};
use std::process::{Command, Stdio};

#[derive(Serialize, Deserialize, Clone, Debug)]
pub struct MacroInv {
    pub entry: Entry,
    pub val: Val,
    pub key: String,
    /// 0..=3 key => value tags
    pub tags: Vec<(String, String)>,
    pub sink: SinkOut,
    /// the value argument expression panics (a user panic, caught by the caller):
    /// nothing is sent, and later macro invocations on this thread must be unaffected
    #[serde(default)]
    pub arg_panics: bool,
}

#[derive(Serialize, Deserialize, Clone, Debug)]
pub struct MacroCase {
    /// None: the global default is never set
    pub cfg: Option<ClientCfg>,
    /// call set_global_default a second time with another client (must be ignored)
    pub second_set: bool,
    /// number of invocations made *before* the global default is set (they must
    /// panic; the ones after the set must work, on the same thread)
    #[serde(default)]
    pub set_after: usize,
    /// number of `compare_exchange_weak` attempts made by set_global_default that fail
    /// spuriously (allowed by the memory model on LL/SC targets; injected through the
    /// cfg(cadence_verif) shim). The set must still take effect.
    #[serde(default)]
    pub spurious_weak: u8,
    pub invocations: Vec<MacroInv>,
}

#[cfg(cadence_verif)]
struct SpuriousWeak(Cell<u8>);

#[cfg(cadence_verif)]
impl cadence_macros::verif_shim::Tracer for SpuriousWeak {
    fn before(&self, _ev: &cadence_macros::verif_shim::Event) {}
    fn after(&self, _ev: &cadence_macros::verif_shim::Event) {}
    fn fail_weak_spuriously(&self, _ev: &cadence_macros::verif_shim::Event) -> bool {
        let left = self.0.get();
        if left > 0 {
            self.0.set(left - 1);
            true
        } else {
            false
        }
    }
}

#[derive(Serialize, Deserialize, Clone, Debug, Default)]
pub struct InvObs {
    pub macro_emitted: Vec<String>,
    pub macro_handler: Vec<SerErr>,
    pub macro_panic: Option<String>,
    /// evaluation count per argument: key, value, then tag key/value pairs
    pub arg_counts: Vec<u32>,
    /// argument indices (0 = key, 1 = value, 2.. = tag key/value pairs) in evaluation order
    #[serde(default)]
    pub arg_order: Vec<u32>,
    pub chain_emitted: Vec<String>,
    pub chain_handler: Vec<SerErr>,
    pub chain_panic: Option<String>,
}

#[derive(Serialize, Deserialize, Clone, Debug, PartialEq)]
pub struct SerErr {
    pub invalid_input: bool,
    pub io_kind: Option<String>,
    pub token: Option<u64>,
}

impl From<&ErrInfo> for SerErr {
    fn from(e: &ErrInfo) -> Self {
        SerErr {
            invalid_input: e.invalid_input,
            io_kind: e.io.map(|(k, _)| format!("{:?}", k)),
            token: e.io.and_then(|(_, t)| t),
        }
    }
}

#[derive(Serialize, Deserialize, Clone, Debug, Default)]
pub struct ChildObs {
    pub is_set_before: bool,
    pub is_set_after: bool,
    pub get_ok_after: bool,
    pub invocations: Vec<InvObs>,
}

fn once<T>(c: &Cell<u32>, v: T) -> T {
    c.set(c.get() + 1);
    ARG_ORDER.with(|o| o.borrow_mut().push(c as *const Cell<u32> as usize));
    v
}

thread_local! {
    static ARG_PANICS: Cell<bool> = const { Cell::new(false) };
    /// addresses of the counters in the order in which the argument expressions were evaluated
    static ARG_ORDER: std::cell::RefCell<Vec<usize>> = const { std::cell::RefCell::new(Vec::new()) };
}

/// like `once`, for the value argument: panics (harness panic) when the case says so
fn once_val<T>(c: &Cell<u32>, v: T) -> T {
    c.set(c.get() + 1);
    ARG_ORDER.with(|o| o.borrow_mut().push(c as *const Cell<u32> as usize));
    if ARG_PANICS.with(|f| f.get()) {
        panic!("{} (macro argument expression)", util::HARNESS_PANIC);
    }
    v
}

/// static call sites: one per (macro x value type x tag count)
macro_rules! site {
    ($mac:ident, $key:expr, $val:expr, $tags:expr, $cnt:expr) => {{
        let tags: &Vec<(String, String)> = $tags;
        let cnt: &Vec<Cell<u32>> = $cnt;
        match tags.len() {
            0 => {
                cadence_macros::$mac!(once(&cnt[0], $key), once_val(&cnt[1], $val));
            }
            1 => {
                cadence_macros::$mac!(
                    once(&cnt[0], $key),
                    once_val(&cnt[1], $val),
                    once(&cnt[2], tags[0].0.as_str()) => once(&cnt[3], tags[0].1.as_str())
                );
            }
            2 => {
                cadence_macros::$mac!(
                    once(&cnt[0], $key),
                    once_val(&cnt[1], $val),
                    once(&cnt[2], tags[0].0.as_str()) => once(&cnt[3], tags[0].1.as_str()),
                    once(&cnt[4], tags[1].0.as_str()) => once(&cnt[5], tags[1].1.as_str())
                );
            }
            _ => {
                cadence_macros::$mac!(
                    once(&cnt[0], $key),
                    once_val(&cnt[1], $val),
                    once(&cnt[2], tags[0].0.as_str()) => once(&cnt[3], tags[0].1.as_str()),
                    once(&cnt[4], tags[1].0.as_str()) => once(&cnt[5], tags[1].1.as_str()),
                    once(&cnt[6], tags[2].0.as_str()) => once(&cnt[7], tags[2].1.as_str())
                );
            }
        }
    }};
}

fn durs(v: &[(u64, u32)]) -> Vec<std::time::Duration> {
    v.iter().map(|(s, n)| std::time::Duration::new(*s, *n)).collect()
}

fn floats(v: &[u64]) -> Vec<f64> {
    v.iter().map(|b| f64::from_bits(*b)).collect()
}

fn invoke_macro(inv: &MacroInv, cnt: &Vec<Cell<u32>>) -> Result<(), String> {
    use std::time::Duration;
    use Entry::*;
    let key: &str = &inv.key;
    let tags = &inv.tags;
    match (inv.entry, &inv.val) {
        (CountI64, Val::I64(v)) => site!(statsd_count, key, *v, tags, cnt),
        (CountI32, Val::I32(v)) => site!(statsd_count, key, *v, tags, cnt),
        (CountU64, Val::U64(v)) => site!(statsd_count, key, *v, tags, cnt),
        (CountU32, Val::U32(v)) => site!(statsd_count, key, *v, tags, cnt),
        (TimeU64, Val::U64(v)) => site!(statsd_time, key, *v, tags, cnt),
        (TimeDur, Val::Dur(s, n)) => site!(statsd_time, key, Duration::new(*s, *n), tags, cnt),
        (TimeVecU64, Val::VU64(v)) => site!(statsd_time, key, v.clone(), tags, cnt),
        (TimeVecDur, Val::VDur(v)) => site!(statsd_time, key, durs(v), tags, cnt),
        (GaugeU64, Val::U64(v)) => site!(statsd_gauge, key, *v, tags, cnt),
        (GaugeF64, Val::F64(b)) => site!(statsd_gauge, key, f64::from_bits(*b), tags, cnt),
        (MeterU64, Val::U64(v)) => site!(statsd_meter, key, *v, tags, cnt),
        (HistU64, Val::U64(v)) => site!(statsd_histogram, key, *v, tags, cnt),
        (HistF64, Val::F64(b)) => site!(statsd_histogram, key, f64::from_bits(*b), tags, cnt),
        (HistDur, Val::Dur(s, n)) => site!(statsd_histogram, key, Duration::new(*s, *n), tags, cnt),
        (HistVecU64, Val::VU64(v)) => site!(statsd_histogram, key, v.clone(), tags, cnt),
        (HistVecF64, Val::VF64(v)) => site!(statsd_histogram, key, floats(v), tags, cnt),
        (HistVecDur, Val::VDur(v)) => site!(statsd_histogram, key, durs(v), tags, cnt),
        (DistU64, Val::U64(v)) => site!(statsd_distribution, key, *v, tags, cnt),
        (DistF64, Val::F64(b)) => site!(statsd_distribution, key, f64::from_bits(*b), tags, cnt),
        (DistVecU64, Val::VU64(v)) => site!(statsd_distribution, key, v.clone(), tags, cnt),
        (DistVecF64, Val::VF64(v)) => site!(statsd_distribution, key, floats(v), tags, cnt),
        (SetI64, Val::I64(v)) => site!(statsd_set, key, *v, tags, cnt),
        (e, v) => return Err(format!("malformed macro case: {:?} with {:?}", e, v.ty())),
    }
    Ok(())
}

/// the explicit chain the macros are documented to be
fn invoke_chain(inv: &MacroInv) -> Result<(), String> {
    let client = cadence_macros::get_global_default().unwrap();
    let call = Call {
        entry: inv.entry,
        val: inv.val.clone(),
        form: Form::Quiet,
        key: inv.key.clone(),
        ops: inv.tags.iter().map(|(k, v)| BOp::Tag(k.clone(), v.clone())).collect(),
        sink: inv.sink,
    };
    crate::fmt::exec::dispatch(&client, &call).map(|_| ())
}

/// entry point of the child process: case on stdin, observations on stdout
pub fn child_main() -> i32 {
    util::install_quiet_panic_hook();
    let mut input = String::new();
    if std::io::stdin().read_to_string(&mut input).is_err() {
        return 3;
    }
    let case: MacroCase = match serde_json::from_str(&input) {
        Ok(c) => c,
        Err(e) => {
            eprintln!("macro-child: cannot decode case: {}", e);
            return 3;
        }
    };
    let mut obs = ChildObs::default();
    obs.is_set_before = cadence_macros::is_global_default_set();
    let handle = ScriptedSinkHandle::new();
    let set_at = if case.cfg.is_some() { case.set_after.min(case.invocations.len()) } else { usize::MAX };
    let do_set = |handle: &ScriptedSinkHandle| {
        if let Some(cfg) = &case.cfg {
            let client = handle.build_client(cfg);
            #[cfg(cadence_verif)]
            if case.spurious_weak > 0 {
                cadence_macros::verif_shim::install_tracer(Some(Box::new(SpuriousWeak(Cell::new(case.spurious_weak)))));
            }
            cadence_macros::set_global_default(client);
            #[cfg(cadence_verif)]
            cadence_macros::verif_shim::install_tracer(None);
            if case.second_set {
                let other = ScriptedSinkHandle::new();
                let mut cfg2 = cfg.clone();
                cfg2.prefix = "SECOND-SET-MUST-BE-IGNORED".into();
                cadence_macros::set_global_default(other.build_client(&cfg2));
            }
        }
    };
    if set_at == 0 {
        do_set(&handle);
    }
    for (i, inv) in case.invocations.iter().enumerate() {
        if i == set_at && set_at != 0 {
            do_set(&handle);
        }
        let is_set_now = i >= set_at;
        let mut o = InvObs::default();
        let cnt: Vec<Cell<u32>> = (0..8).map(|_| Cell::new(0)).collect();
        handle.arm(inv.sink, 2 * i as u64 + 1);
        ARG_PANICS.with(|f| f.set(inv.arg_panics));
        ARG_ORDER.with(|o| o.borrow_mut().clear());
        let r = util::catch(|| invoke_macro(inv, &cnt));
        ARG_PANICS.with(|f| f.set(false));
        o.arg_order = ARG_ORDER.with(|ord| {
            ord.borrow()
                .iter()
                .filter_map(|a| cnt.iter().position(|c| c as *const Cell<u32> as usize == *a).map(|i| i as u32))
                .collect()
        });
        match r {
            Ok(Ok(())) => {}
            Ok(Err(m)) => {
                eprintln!("{}", m);
                return 3;
            }
            Err(p) => o.macro_panic = Some(p),
        }
        let (em, hl) = handle.take();
        o.macro_emitted = em;
        o.macro_handler = hl.iter().map(SerErr::from).collect();
        o.arg_counts = cnt.iter().take(2 + 2 * inv.tags.len().min(3)).map(|c| c.get()).collect();
        if is_set_now && !inv.arg_panics {
            handle.arm(inv.sink, 2 * i as u64 + 2);
            match util::catch(|| invoke_chain(inv)) {
                Ok(Ok(())) => {}
                Ok(Err(m)) => {
                    eprintln!("{}", m);
                    return 3;
                }
                Err(p) => o.chain_panic = Some(p),
            }
            let (em, hl) = handle.take();
            o.chain_emitted = em;
            o.chain_handler = hl.iter().map(SerErr::from).collect();
        }
        obs.invocations.push(o);
    }
    if set_at != usize::MAX && set_at >= case.invocations.len() && set_at != 0 {
        do_set(&handle);
    }
    obs.is_set_after = cadence_macros::is_global_default_set();
    obs.get_ok_after = cadence_macros::get_global_default().is_ok();
    let out = serde_json::to_string(&obs).unwrap();
    let _ = std::io::stdout().write_all(out.as_bytes());
    0
}

// ---------------------------------------------------------------------------
// parent side

fn run_child(case: &MacroCase) -> Result<ChildObs, String> {
    let exe = std::env::current_exe().map_err(|e| e.to_string())?;
    let mut child = Command::new(exe)
        .arg("macro-child")
        .stdin(Stdio::piped())
        .stdout(Stdio::piped())
        .stderr(Stdio::piped())
        .spawn()
        .map_err(|e| format!("cannot spawn child: {}", e))?;
    let input = serde_json::to_vec(case).map_err(|e| e.to_string())?;
    {
        let mut stdin = child.stdin.take().ok_or("no stdin")?;
        stdin.write_all(&input).map_err(|e| e.to_string())?;
    }
    let out = child.wait_with_output().map_err(|e| e.to_string())?;
    if !out.status.success() {
        return Err(format!(
            "child exited with {:?}: {}",
            out.status,
            String::from_utf8_lossy(&out.stderr).chars().take(400).collect::<String>()
        ));
    }
    serde_json::from_slice(&out.stdout).map_err(|e| format!("cannot decode child output: {}", e))
}

pub fn judge(case: &MacroCase, obs: &ChildObs) -> Vec<String> {
    let mut bad = Vec::new();
    if obs.is_set_before {
        bad.push("is_global_default_set() is true in a fresh process".into());
    }
    if obs.is_set_after != case.cfg.is_some() || obs.get_ok_after != case.cfg.is_some() {
        bad.push(format!(
            "after {} set_global_default: is_global_default_set() = {}, get_global_default().is_ok() = {}",
            if case.cfg.is_some() { "a" } else { "no" },
            obs.is_set_after,
            obs.get_ok_after
        ));
    }
    if obs.invocations.len() != case.invocations.len() {
        bad.push("child reported a different number of invocations".into());
        return bad;
    }
    let set_at = if case.cfg.is_some() { case.set_after.min(case.invocations.len()) } else { usize::MAX };
    for (i, (inv, o)) in case.invocations.iter().zip(obs.invocations.iter()).enumerate() {
        let cfg = match case.cfg.as_ref().filter(|_| i >= set_at) {
            None => {
                // panics iff no global client has been set
                if o.macro_panic.is_none() {
                    bad.push(format!("invocation #{} ({:?}): macro did not panic although no global client is set", i, inv.entry));
                }
                if !o.macro_emitted.is_empty() {
                    bad.push(format!("invocation #{}: something was emitted without a global client", i));
                }
                continue;
            }
            Some(c) => c,
        };
        if inv.arg_panics {
            // the user's argument expression panicked: that panic propagates, nothing is sent
            match &o.macro_panic {
                Some(p) if p.contains(util::HARNESS_PANIC) => {}
                other => bad.push(format!("invocation #{}: the value expression panicked but the macro reported {:?}", i, other)),
            }
            if !o.macro_emitted.is_empty() {
                bad.push(format!("invocation #{}: something was sent although the value expression panicked: {:?}", i, o.macro_emitted));
            }
            continue;
        }
        if let Some(p) = &o.macro_panic {
            bad.push(format!("invocation #{} ({:?}): macro panicked although the global client is set: {}", i, inv.entry, p));
            continue;
        }
        if let Some(p) = &o.chain_panic {
            bad.push(format!("invocation #{}: explicit chain panicked: {}", i, p));
            continue;
        }
        // ... in the order written (key, value, then the tag pairs): that is the order of the tagged
        // call chain, and with argument expressions that share state it decides what is sent
        if o.arg_counts.iter().all(|c| *c == 1) && !o.arg_order.is_empty() && o.arg_order.windows(2).any(|w| w[0] > w[1]) {
            bad.push(format!(
                "invocation #{} ({:?}, {} tags): arguments were evaluated in the order {:?} (0 = key, 1 = value, 2.. = tag keys/values), the tagged call chain evaluates them as written",
                i,
                inv.entry,
                inv.tags.len(),
                o.arg_order
            ));
        }
        // each argument evaluated exactly once
        if o.arg_counts.iter().any(|c| *c != 1) {
            bad.push(format!(
                "invocation #{} ({:?}, {} tags): arguments evaluated {:?} times (key, value, tag key/value...), expected once each",
                i,
                inv.entry,
                inv.tags.len(),
                o.arg_counts
            ));
        }
        // same single emit as the explicit chain
        if o.macro_emitted != o.chain_emitted {
            bad.push(format!(
                "invocation #{} ({:?}): macro emitted {:?} but the explicit tagged quiet send emitted {:?}",
                i, inv.entry, o.macro_emitted, o.chain_emitted
            ));
        }
        // reference model
        let call = Call {
            entry: inv.entry,
            val: inv.val.clone(),
            form: Form::Quiet,
            key: inv.key.clone(),
            ops: inv.tags.iter().map(|(k, v)| BOp::Tag(k.clone(), v.clone())).collect(),
            sink: inv.sink,
        };
        let tok = 2 * i as u64 + 1;
        match model::expected_value(inv.entry, &inv.val) {
            Ok(model::ExpectedValue::Values(vals)) => {
                if o.macro_emitted.len() != 1 {
                    bad.push(format!("invocation #{} ({:?}): {} emits instead of one", i, inv.entry, o.macro_emitted.len()));
                } else {
                    let exp = model::expected_line(cfg, &call, vals);
                    if let Err(me) = model::match_line_ex(&o.macro_emitted[0], &exp) {
                        bad.push(format!("invocation #{} ({:?}): line '{}': {}", i, inv.entry, model::clip(&o.macro_emitted[0]), me.msg));
                    }
                }
                match inv.sink {
                    SinkOut::Accept(_) => {
                        if !o.macro_handler.is_empty() {
                            bad.push(format!("invocation #{}: handler invoked on success: {:?}", i, o.macro_handler));
                        }
                    }
                    SinkOut::Refuse(k) => {
                        if cfg.handler {
                            let want = SerErr {
                                invalid_input: false,
                                io_kind: Some(format!("{:?}", util::io_kind(k))),
                                token: Some(tok),
                            };
                            if o.macro_handler != vec![want.clone()] {
                                bad.push(format!(
                                    "invocation #{}: sink refused; the client's handler must get exactly {:?}, got {:?}",
                                    i, want, o.macro_handler
                                ));
                            }
                        }
                    }
                }
            }
            Ok(_) => {
                // rejected value: nothing sent, failure reported to the handler only
                if !o.macro_emitted.is_empty() {
                    bad.push(format!("invocation #{}: rejected value was sent: {:?}", i, o.macro_emitted));
                }
                if cfg.handler && !(o.macro_handler.len() == 1 && o.macro_handler[0].invalid_input) {
                    bad.push(format!("invocation #{}: rejected value must be reported once to the handler, got {:?}", i, o.macro_handler));
                }
            }
            Err(m) => bad.push(m),
        }
    }
    bad
}

fn macro_entry() -> impl Strategy<Value = Entry> {
    prop::sample::select(ENTRIES.iter().copied().filter(|e| !matches!(e, Entry::Incr | Entry::Decr)).collect::<Vec<_>>())
}

pub fn macro_case() -> BoxedStrategy<MacroCase> {
    let inv = macro_entry()
        .prop_flat_map(|entry| {
            (
                Just(entry),
                val_for(entry.val_ty()),
                any_string(),
                prop::collection::vec((any_string(), any_string()), 0..=3),
                sink_out(3),
            )
        })
        .prop_map(|(entry, val, key, tags, sink)| MacroInv {
            entry,
            val,
            key,
            tags,
            sink,
            arg_panics: false,
        });
    let inv = (inv, prop::bool::weighted(0.06)).prop_map(|(mut i, p)| {
        i.arg_panics = p;
        i
    });
    (
        prop::option::weighted(0.9, cfg_strategy(4)),
        prop::bool::weighted(0.3),
        (prop_oneof![3 => Just(0usize), 2 => 1usize..6], prop_oneof![3 => Just(0u8), 1 => 1u8..4], prop_oneof![9 => Just(0u8), 1 => 1u8..4]),
        prop::collection::vec(inv, 1..40),
    )
        .prop_map(|(cfg, second_set, (set_after, spurious_weak, reenter), invocations)| MacroCase {
            cfg: cfg.map(|mut c| {
                c.reenter = reenter;
                c
            }),
            second_set,
            set_after,
            spurious_weak,
            invocations,
        })
        .boxed()
}

pub struct MacroCampaign;

impl Campaign for MacroCampaign {
    type Case = MacroCase;
    fn name(&self) -> &'static str {
        "macro-child-process"
    }
    fn max_shrink_iters(&self) -> u32 {
        150
    }
    fn strategy(&self, _tier: Tier) -> BoxedStrategy<MacroCase> {
        macro_case()
    }
    fn check(&self, case: &MacroCase, _ctx: &Ctx) -> Outcome {
        let obs = match run_child(case) {
            Ok(o) => o,
            Err(e) => {
                // a child that dies (abort, signal) while the global is set is a
                // violation of "never panics/aborts"; a spawn problem is not
                if e.starts_with("cannot spawn") {
                    util::mark_inconclusive(&e);
                    return Outcome::ok();
                }
                return Outcome {
                    verdict: Err(format!("child process failed: {}", e)),
                    nontrivial: false,
                    fingerprint: util::hash_json(case),
                    classes: vec![],
                };
            }
        };
        let bad = judge(case, &obs);
        let mut classes = Vec::new();
        let has_defaults = case.cfg.as_ref().map_or(false, |c| !c.tags.is_empty());
        let failing = case.invocations.iter().any(|i| matches!(i.sink, SinkOut::Refuse(_)));
        let two_tags = case.invocations.iter().any(|i| i.tags.len() >= 2);
        if case.cfg.is_none() {
            classes.push("global client unset (every macro must panic)");
        }
        if has_defaults {
            classes.push("global client with default tags");
        }
        if failing {
            classes.push("failing sink");
        }
        if case.second_set {
            classes.push("second set_global_default (ignored)");
        }
        if case.cfg.is_some() && case.spurious_weak > 0 {
            classes.push("spurious compare_exchange_weak failures injected into set_global_default");
        }
        if case.cfg.is_some() && case.set_after > 0 {
            classes.push("macros invoked before and after the global default is set");
        }
        Outcome {
            verdict: match bad.first() {
                None => Ok(()),
                Some(b) => Err(b.clone()),
            },
            nontrivial: (has_defaults || failing) && two_tags,
            fingerprint: util::hash_json(case),
            classes,
        }
    }
}

/// C02 through the macro call form: the value section of the line a macro sends must be
/// the value section the direct tagged call sends for the same value (which the fmt
/// campaigns of C02 judge against the reference numerals). Tags, handler behaviour and
/// the unset state are C17's business and are not judged here.
pub struct MacroValues;

fn value_section<'a>(line: &'a str, key: &str) -> Option<&'a str> {
    let pat = format!("{}:", key);
    let i = line.find(&pat)?;
    line[i + pat.len()..].split('|').next()
}

impl Campaign for MacroValues {
    type Case = MacroCase;
    fn name(&self) -> &'static str {
        "macro-values"
    }
    fn max_shrink_iters(&self) -> u32 {
        150
    }
    fn strategy(&self, _tier: Tier) -> BoxedStrategy<MacroCase> {
        macro_case()
    }
    fn check(&self, case: &MacroCase, _ctx: &Ctx) -> Outcome {
        let obs = match run_child(case) {
            Ok(o) => o,
            Err(e) => {
                util::mark_inconclusive(&e);
                return Outcome::ok();
            }
        };
        let mut bad: Vec<String> = Vec::new();
        let mut compared = 0usize;
        for (i, (inv, o)) in case.invocations.iter().zip(obs.invocations.iter()).enumerate() {
            if o.macro_panic.is_some() || o.chain_panic.is_some() || inv.arg_panics {
                continue;
            }
            if o.macro_emitted.len() != 1 || o.chain_emitted.len() != 1 {
                continue;
            }
            let (m, c) = (&o.macro_emitted[0], &o.chain_emitted[0]);
            // judge only where both lines agree up to the value (same name part)
            let pat = format!("{}:", inv.key);
            match (m.find(&pat), c.find(&pat)) {
                (Some(a), Some(b)) if a == b && m[..a] == c[..b] => {}
                _ => continue,
            }
            if let (Some(vm), Some(vc)) = (value_section(m, &inv.key), value_section(c, &inv.key)) {
                compared += 1;
                if vm != vc {
                    bad.push(format!(
                        "invocation #{} ({:?}): the macro sent the value '{}' but the direct call with the same argument sends '{}'",
                        i,
                        inv.entry,
                        crate::fmt::model::clip(vm),
                        crate::fmt::model::clip(vc)
                    ));
                    break;
                }
            }
        }
        Outcome {
            verdict: match bad.first() {
                None => Ok(()),
                Some(b) => Err(b.clone()),
            },
            nontrivial: compared >= 2,
            fingerprint: util::hash_json(case),
            classes: vec!["value section of macro vs direct call"],
        }
    }
}

// ---------------------------------------------------------------------------
// C18 (process-global wrappers): racing set_global_default in a fresh process

#[derive(Serialize, Deserialize, Clone, Debug)]
pub struct RaceCase {
    pub setters: u8,
    pub readers: u8,
    /// per-thread spin before the call (desynchronises the race a little)
    pub spins: Vec<u16>,
}

#[derive(Serialize, Deserialize, Clone, Debug, Default)]
pub struct RaceObs {
    /// prefix of the client each reader/setter saw afterwards (via a macro line), per thread
    pub seen_prefix: Vec<Option<String>>,
    /// pointer identity of get_global_default() per thread after the race
    pub ptrs: Vec<Option<usize>>,
    /// readers: observations made *during* the race (is_set, get ptr)
    pub early: Vec<(bool, Option<usize>)>,
    pub final_ptr: Option<usize>,
    pub final_prefix: Option<String>,
    pub emitted_per_client: Vec<usize>,
    pub panics: Vec<String>,
}

pub fn race_child_main() -> i32 {
    use std::sync::{Arc, Barrier, Mutex};
    util::install_quiet_panic_hook();
    let mut input = String::new();
    if std::io::stdin().read_to_string(&mut input).is_err() {
        return 3;
    }
    let case: RaceCase = match serde_json::from_str(&input) {
        Ok(c) => c,
        Err(_) => return 3,
    };
    let n_set = case.setters.max(1) as usize;
    let n_read = case.readers as usize;
    let handles: Vec<ScriptedSinkHandle> = (0..n_set).map(|_| ScriptedSinkHandle::new()).collect();
    let clients: Vec<Mutex<Option<cadence::StatsdClient>>> = handles
        .iter()
        .enumerate()
        .map(|(i, h)| {
            Mutex::new(Some(h.build_client(&ClientCfg {
                prefix: format!("client{}", i),
                tags: vec![],
                container: None,
                handler: false,
                handler_panic_at: None,
                reenter: 0,
            })))
        })
        .collect();
    let clients = Arc::new(clients);
    let barrier = Arc::new(Barrier::new(n_set + n_read));
    let obs = Arc::new(Mutex::new(RaceObs {
        seen_prefix: vec![None; n_set + n_read],
        ptrs: vec![None; n_set + n_read],
        early: vec![(false, None); n_read],
        ..RaceObs::default()
    }));
    let mut joins = Vec::new();
    for t in 0..(n_set + n_read) {
        let clients = clients.clone();
        let barrier = barrier.clone();
        let obs = obs.clone();
        let spin = case.spins.get(t).copied().unwrap_or(0);
        joins.push(std::thread::spawn(move || {
            let r = util::catch(|| {
                barrier.wait();
                for _ in 0..spin {
                    std::hint::spin_loop();
                }
                if t < n_set {
                    let c = clients[t].lock().unwrap().take().unwrap();
                    cadence_macros::set_global_default(c);
                } else {
                    let is = cadence_macros::is_global_default_set();
                    let g = cadence_macros::get_global_default().ok().map(|a| Arc::as_ptr(&a) as usize);
                    obs.lock().unwrap().early[t - n_set] = (is, g);
                }
            });
            if let Err(p) = r {
                obs.lock().unwrap().panics.push(p);
            }
        }));
    }
    for j in joins {
        let _ = j.join();
    }
    // after the race: every thread's view (sequentially, from fresh threads)
    for t in 0..(n_set + n_read) {
        let obs2 = obs.clone();
        let _ = std::thread::spawn(move || {
            let g = cadence_macros::get_global_default().ok();
            let mut o = obs2.lock().unwrap();
            o.ptrs[t] = g.as_ref().map(|a| Arc::as_ptr(a) as usize);
        })
        .join();
    }
    let fin = cadence_macros::get_global_default().ok();
    {
        let mut o = obs.lock().unwrap();
        o.final_ptr = fin.as_ref().map(|a| Arc::as_ptr(a) as usize);
    }
    // one macro call: exactly one client's sink must receive it
    for h in &handles {
        h.arm(SinkOut::Accept(0), 1);
    }
    let r = util::catch(|| {
        cadence_macros::statsd_count!("race.key", 1i64);
    });
    if let Err(p) = r {
        obs.lock().unwrap().panics.push(format!("macro after the race: {}", p));
    }
    let mut o = obs.lock().unwrap();
    for h in &handles {
        let (em, _) = h.take();
        if let Some(line) = em.first() {
            o.final_prefix = line.split('.').next().map(|s| s.to_string());
        }
        o.emitted_per_client.push(em.len());
    }
    let out = serde_json::to_string(&*o).unwrap();
    let _ = std::io::stdout().write_all(out.as_bytes());
    0
}

pub struct GlobalRace;

impl Campaign for GlobalRace {
    type Case = RaceCase;
    fn name(&self) -> &'static str {
        "global-default-race-process"
    }
    fn max_shrink_iters(&self) -> u32 {
        30
    }
    fn strategy(&self, _tier: Tier) -> BoxedStrategy<RaceCase> {
        (1u8..=4, 0u8..=4, prop::collection::vec(prop_oneof![Just(0u16), 0u16..200, 0u16..5000], 8))
            .prop_map(|(setters, readers, spins)| RaceCase { setters, readers, spins })
            .boxed()
    }
    fn check(&self, case: &RaceCase, _ctx: &Ctx) -> Outcome {
        let exe = match std::env::current_exe() {
            Ok(e) => e,
            Err(e) => {
                util::mark_inconclusive(&e.to_string());
                return Outcome::ok();
            }
        };
        let child = Command::new(exe).arg("race-child").stdin(Stdio::piped()).stdout(Stdio::piped()).stderr(Stdio::piped()).spawn();
        let mut child = match child {
            Ok(c) => c,
            Err(e) => {
                util::mark_inconclusive(&format!("cannot spawn: {}", e));
                return Outcome::ok();
            }
        };
        if let Some(mut stdin) = child.stdin.take() {
            let _ = stdin.write_all(&serde_json::to_vec(case).unwrap_or_default());
        }
        let out = match child.wait_with_output() {
            Ok(o) => o,
            Err(e) => {
                util::mark_inconclusive(&e.to_string());
                return Outcome::ok();
            }
        };
        let mut bad: Vec<String> = Vec::new();
        if !out.status.success() {
            bad.push(format!("child process died: {:?} {}", out.status, String::from_utf8_lossy(&out.stderr).chars().take(300).collect::<String>()));
        }
        let obs: RaceObs = serde_json::from_slice(&out.stdout).unwrap_or_default();
        if bad.is_empty() {
            for p in &obs.panics {
                bad.push(format!("panic: {}", p));
            }
            let fp = obs.final_ptr;
            if fp.is_none() {
                bad.push("after all setters returned, get_global_default() reports 'not set'".into());
            }
            for (t, p) in obs.ptrs.iter().enumerate() {
                if *p != fp {
                    bad.push(format!("thread {} sees instance {:?}, the final instance is {:?}", t, p, fp));
                }
            }
            for (i, (is, g)) in obs.early.iter().enumerate() {
                if let Some(p) = g {
                    if Some(*p) != fp {
                        bad.push(format!("reader {} got instance {:#x} during the race, the winner is {:?}", i, p, fp));
                    }
                    let _ = is;
                }
            }
            let total: usize = obs.emitted_per_client.iter().sum();
            let receivers = obs.emitted_per_client.iter().filter(|n| **n > 0).count();
            if total != 1 || receivers != 1 {
                bad.push(format!("one macro call after the race produced emits {:?} over the candidate clients", obs.emitted_per_client));
            }
        }
        let racing = case.setters >= 2;
        Outcome {
            verdict: match bad.first() {
                None => Ok(()),
                Some(b) => Err(b.clone()),
            },
            nontrivial: racing,
            fingerprint: util::hash_json(case),
            classes: if racing { vec!["racing setters in one process (OS-scheduled)"] } else { vec!["single setter"] },
        }
    }
}
