//! Structure-aware decoders from raw bytes (`arbitrary::Unstructured`) into the
//! case types. Used by the libFuzzer targets and — through a byte-vector
//! strategy — by the proptest quick tier of C20, so both front ends share one
//! interpreter and oracle.

use crate::api::{ApiCase, ApiOp};
use crate::fmt::case::*;
use crate::writer::case::{WOp, WriterCase};
use arbitrary::Unstructured;

type R<T> = arbitrary::Result<T>;

fn small_string(u: &mut Unstructured) -> R<String> {
    let mode = u.int_in_range(0u8..=9)?;
    let len = match mode {
        0 => 0,
        1..=6 => u.int_in_range(0usize..=8)?,
        7 | 8 => u.int_in_range(0usize..=40)?,
        _ => u.int_in_range(0usize..=3000)?,
    };
    let alphabet: &[char] = &['a', 'b', 'z', '0', '9', '.', '_', '-', ' ', ':', '|', '#', ',', '@', '\n', 'é', '日', '𝄞', '\0', '\r', '%'];
    let mut s = String::new();
    if len > 64 {
        // long strings: a repeated unit, cheap in input bytes
        let unit_len = u.int_in_range(1usize..=4)?;
        let mut unit = String::new();
        for _ in 0..unit_len {
            unit.push(*u.choose(alphabet)?);
        }
        while s.len() < len {
            s.push_str(&unit);
        }
        return Ok(s);
    }
    for _ in 0..len {
        if u.is_empty() {
            break;
        }
        if u.ratio(1u8, 12u8)? {
            let c: char = u.arbitrary()?;
            s.push(c);
        } else {
            s.push(*u.choose(alphabet)?);
        }
    }
    Ok(s)
}

fn f64_bits(u: &mut Unstructured) -> R<u64> {
    Ok(match u.int_in_range(0u8..=7)? {
        0 => f64::NAN.to_bits(),
        1 => *u.choose(&[f64::INFINITY.to_bits(), f64::NEG_INFINITY.to_bits(), (-0.0f64).to_bits(), 0u64, f64::MAX.to_bits(), 1u64])?,
        2 => {
            let t = f64_table();
            *u.choose(&t)?
        }
        _ => u.arbitrary::<u64>()?,
    })
}

fn dur(u: &mut Unstructured) -> R<(u64, u32)> {
    Ok(match u.int_in_range(0u8..=5)? {
        0 => (u64::MAX, 999_999_999),
        1 => (MS_SECS, u.int_in_range(613_000_000u32..=617_999_999)?),
        2 => (NS_SECS, u.int_in_range(709_551_613u32..=709_551_618)?),
        3 => (0, 0),
        _ => (u.arbitrary::<u64>()?, u.int_in_range(0u32..=999_999_999)?),
    })
}

fn list_len(u: &mut Unstructured) -> R<usize> {
    Ok(match u.int_in_range(0u8..=47)? {
        0..=7 => 0,
        8..=15 => 1,
        16..=39 => u.int_in_range(2usize..=12)?,
        40..=46 => u.int_in_range(12usize..=1200)?,
        _ => 100_000,
    })
}

fn value(u: &mut Unstructured, ty: ValTy) -> R<Val> {
    Ok(match ty {
        ValTy::I64 => Val::I64(if u.ratio(1u8, 3u8)? { *u.choose(I64_EDGES)? } else { u.arbitrary()? }),
        ValTy::I32 => Val::I32(u.arbitrary()?),
        ValTy::U64 => Val::U64(if u.ratio(1u8, 4u8)? { *u.choose(&[0, 1, u64::MAX, u64::MAX - 1, 1 << 63])? } else { u.arbitrary()? }),
        ValTy::U32 => Val::U32(u.arbitrary()?),
        ValTy::Unit => Val::Unit,
        ValTy::F64 => Val::F64(f64_bits(u)?),
        ValTy::Dur => {
            let (s, n) = dur(u)?;
            Val::Dur(s, n)
        }
        ValTy::VU64 => {
            let n = list_len(u)?;
            let base: u64 = u.arbitrary()?;
            Val::VU64((0..n).map(|i| if i < 16 { u.arbitrary::<u64>().unwrap_or(base) } else { base.wrapping_add(i as u64) }).collect())
        }
        ValTy::VF64 => {
            let n = list_len(u)?;
            let base = f64_bits(u)?;
            Val::VF64((0..n).map(|i| if i < 16 { f64_bits(u).unwrap_or(base) } else { base }).collect())
        }
        ValTy::VDur => {
            let n = list_len(u)?.min(5000);
            let base = dur(u)?;
            Val::VDur((0..n).map(|i| if i < 16 { dur(u).unwrap_or(base) } else { base }).collect())
        }
    })
}

pub fn fmt_case(u: &mut Unstructured) -> R<FmtCase> {
    let prefix = {
        let mut p = small_string(u)?;
        let dots = u.int_in_range(0usize..=3)?;
        for _ in 0..dots {
            p.push('.');
        }
        p
    };
    let mut tags = Vec::new();
    let nt = u.int_in_range(0usize..=4)?;
    for _ in 0..nt {
        if u.is_empty() {
            break;
        }
        let key = if u.arbitrary::<bool>()? { Some(small_string(u)?) } else { None };
        tags.push(Tag {
            key,
            value: small_string(u)?,
        });
    }
    let container = if u.ratio(1u8, 3u8)? { Some(small_string(u)?) } else { None };
    let cfg = ClientCfg {
        prefix,
        tags,
        container,
        handler: u.arbitrary()?,
        handler_panic_at: None,
        reenter: 0,
    };
    let mut calls = Vec::new();
    let nc = u.int_in_range(1usize..=6)?;
    for _ in 0..nc {
        let entry = *u.choose(&ENTRIES)?;
        let form = *u.choose(&[Form::Plain, Form::Try, Form::Quiet])?;
        let val = value(u, entry.val_ty())?;
        let key = small_string(u)?;
        let mut ops = Vec::new();
        if form != Form::Plain {
            let no = u.int_in_range(0usize..=5)?;
            for _ in 0..no {
                if u.is_empty() {
                    break;
                }
                ops.push(match u.int_in_range(0u8..=4)? {
                    0 => BOp::Tag(small_string(u)?, small_string(u)?),
                    1 => BOp::TagValue(small_string(u)?),
                    2 => BOp::Rate(f64_bits(u)?),
                    3 => BOp::Container(small_string(u)?),
                    _ => BOp::Timestamp(u.arbitrary()?),
                });
            }
        }
        let sink = if u.ratio(1u8, 5u8)? {
            SinkOut::Refuse(u.int_in_range(0u8..=12)?)
        } else {
            SinkOut::Accept(*u.choose(&[0u64, 7, usize::MAX as u64])?)
        };
        calls.push(Call {
            entry,
            val,
            form,
            key,
            ops: normalise_ops(ops),
            sink,
        });
        if u.is_empty() {
            break;
        }
    }
    Ok(FmtCase { cfg, calls })
}

pub fn writer_case(u: &mut Unstructured) -> R<WriterCase> {
    let cap = match u.int_in_range(0u8..=39)? {
        0..=3 => 0,
        4..=7 => 1,
        8..=27 => u.int_in_range(0usize..=40)?,
        28..=38 => u.int_in_range(0usize..=600)?,
        _ => u.int_in_range(0usize..=(1 << 20))?,
    };
    let term = match u.int_in_range(0u8..=7)? {
        0 => String::new(),
        1..=4 => "\n".to_string(),
        5 => "\r\n".to_string(),
        _ => {
            let mut t = small_string(u)?;
            t.truncate({
                let mut n = t.len().min(64);
                while !t.is_char_boundary(n) {
                    n -= 1;
                }
                n
            });
            t
        }
    };
    let tl = term.len();
    let mut ops = Vec::new();
    let n = u.int_in_range(0usize..=40)?;
    for _ in 0..n {
        if u.is_empty() {
            break;
        }
        if u.ratio(1u8, 6u8)? {
            ops.push(WOp::Flush);
        } else {
            let fit = cap.saturating_sub(tl);
            let len = match u.int_in_range(0u8..=7)? {
                0 => fit,
                1 => fit.saturating_sub(1),
                2 => fit + 1,
                3 => 0,
                4 => cap,
                _ => u.int_in_range(0usize..=(2 * cap.min(300) + 2))?,
            }
            .min(70_000);
            let a = *u.choose(&[b'a', b'b', b'\n', b'\r', b'x'])?;
            let b = *u.choose(&[b'a', b'c', b'\n'])?;
            let s: String = (0..len).map(|i| if i % 3 == 0 { b as char } else { a as char }).collect();
            ops.push(WOp::Emit(s));
        }
    }
    let nf = u.int_in_range(0usize..=24)?;
    let mut faults = Vec::new();
    for _ in 0..nf {
        if u.is_empty() {
            break;
        }
        faults.push(if u.ratio(1u8, 3u8)? { Some(u.int_in_range(0u8..=12)?) } else { None });
    }
    Ok(WriterCase { cap, term, ops, faults })
}

fn metrics(u: &mut Unstructured) -> R<Vec<String>> {
    let n = u.int_in_range(0usize..=12)?;
    let mut v = Vec::new();
    for _ in 0..n {
        if u.is_empty() {
            break;
        }
        v.push(small_string(u)?);
    }
    Ok(v)
}

pub fn api_case(u: &mut Unstructured) -> R<ApiCase> {
    let mut ops = Vec::new();
    let n = u.int_in_range(1usize..=6)?;
    for _ in 0..n {
        let op = match u.int_in_range(0u8..=9)? {
            0 => ApiOp::Spy {
                queue: if u.arbitrary()? { Some(u.int_in_range(0u16..=16)?) } else { None },
                metrics: metrics(u)?,
            },
            1 => ApiOp::BufferedSpy {
                queue: if u.arbitrary()? { Some(u.int_in_range(0u8..=4)?) } else { None },
                buffer: if u.arbitrary()? { Some(*u.choose(&[0u32, 1, 2, 3, 8, 64, 512, 70_000])?) } else { None },
                metrics: metrics(u)?,
                flush: u.arbitrary()?,
            },
            2 => ApiOp::Queuing {
                cap: if u.arbitrary()? { Some(u.int_in_range(0u16..=4)?) } else { None },
                inner: u.arbitrary()?,
                handler: u.arbitrary()?,
                metrics: metrics(u)?,
                clone_drop: u.arbitrary()?,
            },
            3 => ApiOp::Error {
                io_kind: if u.arbitrary()? { Some(u.int_in_range(0u8..=12)?) } else { None },
                msg: small_string(u)?,
            },
            4 => ApiOp::Standalone {
                prefix: small_string(u)?,
                key: small_string(u)?,
                i: u.arbitrary()?,
                u: u.arbitrary()?,
                f: f64_bits(u)?,
            },
            5 => {
                let nt = u.int_in_range(0usize..=4)?;
                let mut tags = Vec::new();
                for _ in 0..nt {
                    let k = if u.arbitrary::<bool>()? { Some(small_string(u)?) } else { None };
                    tags.push((k, small_string(u)?));
                }
                ApiOp::Client {
                    prefix: small_string(u)?,
                    tags,
                    container: if u.arbitrary()? { Some(small_string(u)?) } else { None },
                    key: small_string(u)?,
                }
            }
            6 => ApiOp::Stats {
                n: u.arbitrary()?,
                len: u.arbitrary()?,
                ok: u.arbitrary()?,
            },
            7 => {
                let nw = u.int_in_range(0usize..=12)?;
                let mut writes = Vec::new();
                for _ in 0..nw {
                    let l = u.int_in_range(0usize..=40)?;
                    writes.push(u.bytes(l.min(u.len()))?.to_vec());
                }
                ApiOp::Writer {
                    cap: *u.choose(&[0u32, 1, 2, 3, 4, 8, 16, 64, 512, 1 << 20])?,
                    term: if u.arbitrary()? { Some(small_string(u)?) } else { None },
                    writes,
                }
            }
            8 => ApiOp::Udp {
                addr: u.arbitrary()?,
                buffered: if u.arbitrary()? { Some(*u.choose(&[0u32, 1, 2, 8, 512, u32::MAX])?) } else { None },
                metrics: metrics(u)?,
            },
            _ => ApiOp::Unix {
                buffered: if u.arbitrary()? { Some(*u.choose(&[0u32, 1, 2, 8, 512, u32::MAX])?) } else { None },
                metrics: metrics(u)?,
            },
        };
        ops.push(op);
        if u.is_empty() {
            break;
        }
    }
    Ok(ApiCase { ops })
}

// ---------------------------------------------------------------------------
// in-target oracles shared by the libFuzzer targets and the C20 proptest tier

/// fmt target: every aspect is judged; returns the first finding
pub fn check_fmt_bytes(data: &[u8]) -> Result<Option<FmtCase>, String> {
    let mut u = Unstructured::new(data);
    let case = match fmt_case(&mut u) {
        Ok(c) => c,
        Err(_) => return Ok(None),
    };
    let obs = crate::fmt::exec::run_case(&case)?;
    let judged = crate::fmt::judge::judge(&case, &obs)?;
    match judged.findings.first() {
        None => Ok(Some(case)),
        Some(f) => Err(format!("{:?} call #{}: {}\ncase: {}", f.aspect, f.call, f.msg, serde_json::to_string(&case).unwrap_or_default())),
    }
}

/// mlw target: trace oracle (all rules) with a non-empty terminator, panics always
pub fn check_mlw_bytes(data: &[u8]) -> Result<Option<WriterCase>, String> {
    use crate::writer::oracle::{self, Rule, SeamInfo};
    let mut u = Unstructured::new(data);
    let case = match writer_case(&mut u) {
        Ok(c) => c,
        Err(_) => return Ok(None),
    };
    let trace = crate::writer::seams::run_mlw(&case);
    if case.term.is_empty() {
        // framing is vacuous: only panics are judged
        for t in &trace {
            if let oracle::OpResult::Panicked(p) = &t.result {
                return Err(format!("Panic: {}\ncase: {}", p, serde_json::to_string(&case).unwrap_or_default()));
            }
        }
        return Ok(Some(case));
    }
    let fault_free = case.faults.iter().all(|f| f.is_none());
    let v = oracle::judge(
        case.cap,
        case.term.as_bytes(),
        &trace,
        SeamInfo {
            failures_visible: true,
            fault_free,
            drop_may_fail_hidden: false,
        },
    );
    match v.findings.iter().find(|f| fault_free || f.rule != Rule::Greedy) {
        None => Ok(Some(case)),
        Some(f) => Err(format!("{:?} op #{}: {}\ncase: {}", f.rule, f.op, f.msg, serde_json::to_string(&case).unwrap_or_default())),
    }
}

pub fn check_api_bytes(data: &[u8]) -> Result<Option<ApiCase>, String> {
    let mut u = Unstructured::new(data);
    let case = match api_case(&mut u) {
        Ok(c) => c,
        Err(_) => return Ok(None),
    };
    match crate::api::run_case(&case) {
        None => Ok(Some(case)),
        Some(p) => Err(format!("{}\ncase: {}", p, serde_json::to_string(&case).unwrap_or_default())),
    }
}
