//! Thorough tier: drive the libFuzzer targets (coverage-guided search with the
//! oracle in-target), triage artifacts through the property's own campaign and
//! measure the resulting corpus.

use crate::bytes::{to_hex, BytesCampaign, BytesCase, Target};
use crate::driver::{self, Campaign, Ctx, Evidence, Violation};
use crate::util;
use std::path::{Path, PathBuf};
use std::process::Command;

fn engine_dir() -> PathBuf {
    PathBuf::from(std::env::var("VERIF_DIR").unwrap_or_else(|_| "/verif".into())).join("engine")
}

fn build(target: Target) -> Result<PathBuf, String> {
    let dir = engine_dir();
    let out = Command::new("cargo")
        .args(["+nightly", "fuzz", "build", "-s", "none", target.name()])
        .current_dir(&dir)
        .env("CARGO_NET_OFFLINE", "true")
        .output()
        .map_err(|e| format!("cannot run cargo fuzz: {}", e))?;
    if !out.status.success() {
        let err = String::from_utf8_lossy(&out.stderr);
        let tail: String = err.lines().rev().take(15).collect::<Vec<_>>().into_iter().rev().collect::<Vec<_>>().join("\n");
        return Err(format!("cargo fuzz build failed:\n{}", tail));
    }
    let bin = dir.join("target/x86_64-unknown-linux-gnu/release").join(target.name());
    if bin.exists() {
        Ok(bin)
    } else {
        Err(format!("fuzz binary {} not found after build", bin.display()))
    }
}

fn copy_dir(from: &Path, to: &Path) {
    if let Ok(rd) = std::fs::read_dir(from) {
        for e in rd.flatten() {
            if e.path().is_file() {
                let _ = std::fs::copy(e.path(), to.join(e.file_name()));
            }
        }
    }
}

/// Run one target. `campaign` is the property's view of that target (which
/// findings count for this property).
pub fn run_fuzz(ev: &Evidence, ctx: &Ctx, campaign: &BytesCampaign, runs_per_job: u64, jobs: u32) {
    let target = campaign.target;
    let bin = match build(target) {
        Ok(b) => b,
        Err(e) => {
            util::mark_inconclusive(&e);
            return;
        }
    };
    let work = engine_dir().join("fuzz/work").join(format!("{}-{}-{}", ev.property, target.name(), std::process::id()));
    let corpus = work.join("corpus");
    let artifacts = work.join("artifacts");
    let _ = std::fs::remove_dir_all(&work);
    if std::fs::create_dir_all(&corpus).is_err() || std::fs::create_dir_all(&artifacts).is_err() {
        util::mark_inconclusive("cannot create fuzz work dir");
        return;
    }
    // seeds: committed corpus + 64 pseudo-random files derived from the seed
    let committed = PathBuf::from(std::env::var("VERIF_DIR").unwrap_or_else(|_| "/verif".into())).join("corpus").join(target.name());
    copy_dir(&committed, &corpus);
    let mut x = util::mix(ctx.seed, util::hash_str(target.name()));
    for i in 0..64 {
        let len = 16 + (util::mix(x, i) % 400) as usize;
        let mut data = Vec::with_capacity(len);
        for _ in 0..len {
            x = util::mix(x, 0x5eed);
            data.push((x >> 24) as u8);
        }
        let _ = std::fs::write(corpus.join(format!("seed-{:02}", i)), data);
    }
    let seed_arg = (ctx.seed % 4_000_000_000) + 1; // 0 would mean "random" to libFuzzer
    let out = Command::new(&bin)
        .current_dir(&work)
        .arg("corpus")
        .arg(format!("-runs={}", runs_per_job))
        .arg(format!("-seed={}", seed_arg))
        .arg("-len_control=0")
        .arg("-max_len=2048")
        .arg("-timeout=60")
        .arg("-rss_limit_mb=4096")
        .arg("-print_final_stats=1")
        .arg(format!("-jobs={}", jobs))
        .arg(format!("-workers={}", jobs))
        .arg("-artifact_prefix=artifacts/")
        .output();
    let out = match out {
        Ok(o) => o,
        Err(e) => {
            util::mark_inconclusive(&format!("cannot run fuzz binary: {}", e));
            let _ = std::fs::remove_dir_all(&work);
            return;
        }
    };
    let _ = out;
    // per-job logs fuzz-<n>.log
    let mut executed: u64 = 0;
    let mut findings_text: Vec<String> = Vec::new();
    if let Ok(rd) = std::fs::read_dir(&work) {
        for e in rd.flatten() {
            let name = e.file_name().to_string_lossy().into_owned();
            if name.starts_with("fuzz-") && name.ends_with(".log") {
                if let Ok(t) = std::fs::read_to_string(e.path()) {
                    for l in t.lines() {
                        if let Some(n) = l.strip_prefix("stat::number_of_executed_units:") {
                            executed += n.trim().parse::<u64>().unwrap_or(0);
                        }
                        if l.contains("VERIF-FINDING") && findings_text.len() < 5 {
                            findings_text.push(l.chars().take(600).collect());
                        }
                    }
                }
            }
        }
    }
    ev.add_extra_count(&format!("libfuzzer_{}_executions", target.name()), executed);
    // artifacts: does any of them violate *this* property?
    let mut crashes = 0u64;
    if let Ok(rd) = std::fs::read_dir(&artifacts) {
        let mut files: Vec<PathBuf> = rd.flatten().map(|e| e.path()).collect();
        files.sort();
        for f in files {
            if let Ok(data) = std::fs::read(&f) {
                crashes += 1;
                let case = BytesCase {
                    target,
                    hex: to_hex(&data),
                };
                let o = campaign.check(&case, ctx);
                if let Err(reason) = o.verdict {
                    ev.add_violation(Violation {
                        campaign: campaign.name.to_string(),
                        reason: format!("(libFuzzer artifact {}) {}", f.file_name().and_then(|n| n.to_str()).unwrap_or(""), reason),
                        case: serde_json::to_value(&case).unwrap_or(serde_json::Value::Null),
                    });
                    break;
                }
            }
        }
    }
    ev.add_extra_count(&format!("libfuzzer_{}_artifacts", target.name()), crashes);
    if crashes > 0 && ev.violations().is_empty() {
        ev.set_extra(
            &format!("libfuzzer_{}_note", target.name()),
            serde_json::json!(format!(
                "{} artifact(s) were produced by the all-properties in-target oracle but none violates this property: {:?}",
                crashes, findings_text
            )),
        );
    }
    // measure the resulting corpus through the same campaign (non-trivial / distinct counts)
    if ev.violations().is_empty() {
        let mut cases: Vec<BytesCase> = Vec::new();
        if let Ok(rd) = std::fs::read_dir(&corpus) {
            for e in rd.flatten().take(20_000) {
                if let Ok(data) = std::fs::read(e.path()) {
                    cases.push(BytesCase {
                        target,
                        hex: to_hex(&data),
                    });
                }
            }
        }
        ev.add_extra_count(&format!("libfuzzer_{}_corpus_files", target.name()), cases.len() as u64);
        driver::run_list(campaign, ev, ctx, cases.into_iter(), driver::shards());
    }
    let _ = std::fs::remove_dir_all(&work);
}
