use std::io::Write;
use verif_core::driver::Tier;
use verif_core::{known, props, util};

fn usage() -> ! {
    eprintln!("usage: verif-engine run <ID> [--tier quick|thorough]\n       verif-engine replay <ID> <file>\n       (env VERIF_SEED, VERIF_TIER)");
    std::process::exit(2)
}

fn main() {
    util::install_quiet_panic_hook();
    let args: Vec<String> = std::env::args().collect();
    if args.len() < 2 {
        usage();
    }
    let seed = util::env_u64("VERIF_SEED", 0);
    let mut tier = match std::env::var("VERIF_TIER").as_deref() {
        Ok("thorough") => Tier::Thorough,
        _ => Tier::Quick,
    };
    let mut i = 2;
    let mut pos: Vec<String> = Vec::new();
    while i < args.len() {
        match args[i].as_str() {
            "--tier" => {
                i += 1;
                tier = match args.get(i).map(|s| s.as_str()) {
                    Some("quick") => Tier::Quick,
                    Some("thorough") => Tier::Thorough,
                    _ => usage(),
                };
            }
            other => pos.push(other.to_string()),
        }
        i += 1;
    }
    match args[1].as_str() {
        "macro-child" => std::process::exit(verif_core::macros_child::child_main()),
        "race-child" => std::process::exit(verif_core::macros_child::race_child_main()),
        "run" => {
            let id = pos.first().and_then(|s| props::static_id(s)).unwrap_or_else(|| usage());
            std::process::exit(run(id, tier, seed));
        }
        "replay" => {
            let id = pos.first().and_then(|s| props::static_id(s)).unwrap_or_else(|| usage());
            let file = pos.get(1).unwrap_or_else(|| usage());
            std::process::exit(replay(id, file, tier, seed));
        }
        _ => usage(),
    }
}

fn verif_dir() -> String {
    std::env::var("VERIF_DIR").unwrap_or_else(|_| "/verif".to_string())
}

/// replay the committed regression cases of this property first (seconds)
fn regressions(id: &'static str, tier: Tier, seed: u64) -> Vec<(String, String)> {
    let dir = format!("{}/regressions", verif_dir());
    let mut bad = Vec::new();
    let mut files: Vec<_> = match std::fs::read_dir(&dir) {
        Ok(rd) => rd.filter_map(|e| e.ok()).map(|e| e.path()).collect(),
        Err(_) => return bad,
    };
    files.sort();
    for f in files {
        let name = f.file_name().and_then(|n| n.to_str()).unwrap_or("").to_string();
        if !name.starts_with(&format!("{}-", id)) || !name.ends_with(".json") {
            continue;
        }
        let text = match std::fs::read_to_string(&f) {
            Ok(t) => t,
            Err(_) => continue,
        };
        let v: serde_json::Value = match serde_json::from_str(&text) {
            Ok(v) => v,
            Err(_) => continue,
        };
        let campaign = v["campaign"].as_str().unwrap_or("");
        if let Ok(out) = props::replay(id, campaign, &v["case"], tier, seed) {
            if let Err(reason) = out.verdict {
                bad.push((f.display().to_string(), reason));
            }
        }
    }
    bad
}

fn run(id: &'static str, tier: Tier, seed: u64) -> i32 {
    let reg = regressions(id, tier, seed);
    if !reg.is_empty() {
        // still write evidence from the campaigns below? A regression failing is a
        // violation with its own replay file; report and stop.
        for (path, reason) in &reg {
            println!("VIOLATION property={} replay={}", id, path);
            println!("  campaign: regression replay");
            println!("  reason:   {}", reason);
        }
    }
    let ev = match props::run(id, tier, seed) {
        Some(ev) => ev,
        None => {
            eprintln!("property {} has no engine", id);
            return 2;
        }
    };
    let dir = verif_dir();
    let _ = std::fs::create_dir_all(format!("{}/evidence", dir));
    let json = ev.to_json();
    let path = format!("{}/evidence/{}.json", dir, id);
    if let Err(e) = std::fs::write(&path, serde_json::to_string_pretty(&json).unwrap() + "\n") {
        eprintln!("cannot write {}: {}", path, e);
        return 2;
    }
    for (k, n) in known::hits() {
        println!("KNOWN-FINDING: property={} sig={} {} ({} generated cases excluded)", k.property, k.sig, k.text, n);
    }
    let violations = ev.violations();
    if !violations.is_empty() {
        let _ = std::fs::create_dir_all(format!("{}/replays", dir));
        for v in &violations {
            let body = serde_json::json!({"property": id, "campaign": v.campaign, "reason": v.reason, "case": v.case});
            let text = serde_json::to_string_pretty(&body).unwrap();
            let h = util::hash_str(&text) & 0xffff_ffff;
            let rp = format!("{}/replays/{}-{:08x}.json", dir, id, h);
            let _ = std::fs::write(&rp, text + "\n");
            println!("VIOLATION property={} replay={}", id, rp);
            println!("  campaign: {}", v.campaign);
            println!("  reason:   {}", v.reason);
        }
        let _ = std::io::stdout().flush();
        return 1;
    }
    if !reg.is_empty() {
        return 1;
    }
    if let Some(why) = util::inconclusive() {
        eprintln!("[{}] inconclusive: {:?}", id, &why[..why.len().min(3)]);
        return 2;
    }
    let cov = &json["coverage"];
    println!(
        "OK property={} tier={} seed={} evaluations={} distinct_nontrivial={} wall_s={:.1}",
        id,
        tier.name(),
        seed,
        cov["evaluations"],
        cov["distinct_nontrivial"],
        json["wall_s"].as_f64().unwrap_or(0.0)
    );
    0
}

fn replay(id: &'static str, file: &str, tier: Tier, seed: u64) -> i32 {
    let text = match std::fs::read_to_string(file) {
        Ok(t) => t,
        Err(e) => {
            eprintln!("cannot read {}: {}", file, e);
            return 2;
        }
    };
    let v: serde_json::Value = match serde_json::from_str(&text) {
        Ok(v) => v,
        Err(e) => {
            eprintln!("cannot parse {}: {}", file, e);
            return 2;
        }
    };
    let campaign = v["campaign"].as_str().unwrap_or("");
    match props::replay(id, campaign, &v["case"], tier, seed) {
        Ok(out) => match out.verdict {
            Ok(()) => {
                println!("replay {}: property {} holds on this case", file, id);
                0
            }
            Err(reason) => {
                println!("VIOLATION property={} replay={}", id, file);
                println!("  reason:   {}", reason);
                1
            }
        },
        Err(e) => {
            eprintln!("replay failed: {}", e);
            2
        }
    }
}
