//! C20 `api` driver: constructors with tiny capacities, stats helpers, error
//! accessors, Debug/Display impls, standalone constructors. Oracle: no panic.

use crate::util::{self, catch, HARNESS_PANIC};
use cadence::ext::{MultiLineWriter, SocketStats};
use cadence::prelude::*;
use cadence::{
    BufferedSpyMetricSink, BufferedUdpMetricSink, BufferedUnixMetricSink, Counter, Distribution, ErrorKind, Gauge, Histogram, Meter, Metric,
    MetricError, MetricSink, NopMetricSink, QueuingMetricSink, QueuingMetricSinkBuilder, Set, SinkStats, SpyMetricSink, StatsdClient, Timer,
    UdpMetricSink, UnixMetricSink,
};
use serde::{Deserialize, Serialize};
use std::collections::hash_map::DefaultHasher;
use std::error::Error;
use std::hash::{Hash, Hasher};
use std::io::{self, Write};
use std::net::UdpSocket;
use std::os::unix::net::UnixDatagram;
use std::panic::RefUnwindSafe;

#[derive(Serialize, Deserialize, Clone, Debug)]
pub enum ApiOp {
    /// SpyMetricSink::with_capacity(q) / new, then emits
    Spy { queue: Option<u16>, metrics: Vec<String> },
    /// BufferedSpyMetricSink::with_capacity(queue, buffer)
    BufferedSpy { queue: Option<u8>, buffer: Option<u32>, metrics: Vec<String>, flush: bool },
    /// QueuingMetricSink over a sink that accepts / fails / panics
    Queuing { cap: Option<u16>, inner: u8, handler: bool, metrics: Vec<String>, clone_drop: bool },
    /// MetricError accessors
    Error { io_kind: Option<u8>, msg: String },
    /// standalone constructors with arbitrary strings and values
    Standalone { prefix: String, key: String, i: i64, u: u64, f: u64 },
    /// client builder with arbitrary strings, Debug impl, flush on a nop sink
    Client { prefix: String, tags: Vec<(Option<String>, String)>, container: Option<String>, key: String },
    /// SocketStats / SinkStats helpers
    Stats { n: u64, len: u32, ok: bool },
    /// MultiLineWriter over Vec<u8>
    Writer { cap: u32, term: Option<String>, writes: Vec<Vec<u8>> },
    /// UDP sinks with literal / invalid addresses
    Udp { addr: u8, buffered: Option<u32>, metrics: Vec<String> },
    /// Unix sinks with a path that does not exist
    Unix { buffered: Option<u32>, metrics: Vec<String> },
}

#[derive(Serialize, Deserialize, Clone, Debug)]
pub struct ApiCase {
    pub ops: Vec<ApiOp>,
}

struct Inner(u8);
impl RefUnwindSafe for Inner {}
impl MetricSink for Inner {
    fn emit(&self, m: &str) -> io::Result<usize> {
        match self.0 % 3 {
            0 => Ok(m.len()),
            1 => Err(io::Error::new(io::ErrorKind::Other, "inner sink refuses")),
            _ => panic!("{} (api inner sink)", HARNESS_PANIC),
        }
    }
}

fn exercise_metric<M: Metric + std::fmt::Debug + Clone + PartialEq + Hash>(m: M) {
    let _ = m.as_metric_str().len();
    let _ = format!("{:?}", m);
    let c = m.clone();
    let _ = c == m;
    let mut h = DefaultHasher::new();
    m.hash(&mut h);
    let _ = h.finish();
}

const BUF_LIMIT: u32 = 1 << 20;

pub fn run_op(op: &ApiOp) {
    match op {
        ApiOp::Spy { queue, metrics } => {
            let (rx, sink) = match queue {
                Some(q) => SpyMetricSink::with_capacity((*q as usize).min(4096)),
                None => SpyMetricSink::new(),
            };
            for m in metrics {
                let _ = sink.emit(m);
            }
            let _ = sink.flush();
            let _ = sink.stats();
            let _ = format!("{:?}", sink);
            drop(rx);
            for m in metrics.iter().take(2) {
                let _ = sink.emit(m); // disconnected channel
            }
        }
        ApiOp::BufferedSpy { queue, buffer, metrics, flush } => {
            let (rx, sink) = BufferedSpyMetricSink::with_capacity(queue.map(|q| q as usize), buffer.map(|b| (b.min(BUF_LIMIT)) as usize));
            for m in metrics {
                let _ = sink.emit(m);
            }
            if *flush {
                let _ = sink.flush();
            }
            let _ = sink.stats();
            let _ = format!("{:?}", sink);
            drop(sink);
            drop(rx);
        }
        ApiOp::Queuing { cap, inner, handler, metrics, clone_drop } => {
            let mut b: QueuingMetricSinkBuilder = QueuingMetricSink::builder();
            if let Some(c) = cap {
                b = b.with_capacity((*c as usize).min(4096));
            }
            if *handler {
                b = b.with_error_handler(|e| {
                    let _ = e.to_string();
                });
            }
            let q = b.build(Inner(*inner));
            let q2 = if *clone_drop { Some(q.clone()) } else { None };
            for m in metrics {
                let _ = q.emit(m);
            }
            let _ = (q.queued(), q.submitted(), q.drained(), q.panics());
            let _ = q.stats();
            let _ = q.flush();
            let _ = format!("{:?}", q);
            drop(q2);
            for m in metrics.iter().take(2) {
                let _ = q.emit(m);
            }
            let _ = QueuingMetricSink::from(NopMetricSink).emit("x");
            let _ = QueuingMetricSink::with_capacity(NopMetricSink, (cap.unwrap_or(1) as usize).min(4096)).emit("x");
        }
        ApiOp::Error { io_kind, msg } => {
            #[allow(deprecated)]
            fn poke(e: &MetricError) {
                let _ = e.kind();
                let _ = e.to_string();
                let _ = format!("{:?}", e);
                let _ = e.source().map(|s| s.to_string());
                let _ = e.description().len();
                let _ = e.cause().map(|s| s.to_string());
            }
            match io_kind {
                Some(k) => poke(&MetricError::from(io::Error::new(util::io_kind(*k), msg.clone()))),
                None => {
                    poke(&MetricError::from((ErrorKind::InvalidInput, "invalid")));
                    poke(&MetricError::from((ErrorKind::IoError, "io")));
                }
            }
            let _ = format!("{:?} {:?}", ErrorKind::InvalidInput, ErrorKind::IoError == ErrorKind::IoError);
        }
        ApiOp::Standalone { prefix, key, i, u, f } => {
            let f = f64::from_bits(*f);
            exercise_metric(Counter::new(prefix, key, *i));
            exercise_metric(Timer::new(prefix, key, *u));
            exercise_metric(Gauge::new(prefix, key, *u));
            exercise_metric(Gauge::new_f64(prefix, key, f));
            exercise_metric(Meter::new(prefix, key, *u));
            exercise_metric(Histogram::new(prefix, key, *u));
            exercise_metric(Histogram::new_f64(prefix, key, f));
            exercise_metric(Distribution::new(prefix, key, *u));
            exercise_metric(Distribution::new_f64(prefix, key, f));
            exercise_metric(Set::new(prefix, key, *i));
            exercise_metric(Counter::from(key.clone()));
            let _ = format!("{:?}", cadence::ext::MetricValue::PackedFloat(vec![f, f]));
        }
        ApiOp::Client { prefix, tags, container, key } => {
            let mut b = StatsdClient::builder(prefix, NopMetricSink);
            for (k, v) in tags {
                b = match k {
                    Some(k) => b.with_tag(k, v),
                    None => b.with_tag_value(v),
                };
            }
            if let Some(c) = container {
                b = b.with_container_id(c);
            }
            let client = b.with_error_handler(|e| drop(e)).build();
            let _ = format!("{:?}", client);
            let _ = client.flush();
            let _ = client.incr(key);
            let _ = client.decr(key);
            client.count_with_tags(key, 1).with_tag(key, key).with_tag_value(key).with_container_id(key).with_timestamp(0).with_sampling_rate(f64::NAN).send();
            let c2 = StatsdClient::from_sink(prefix, NopMetricSink);
            let _ = c2.gauge(key, f64::INFINITY);
            fn takes_dyn(c: &dyn MetricClient, k: &str) {
                let _ = c.count(k, 1i64);
                let _ = c.time(k, std::time::Duration::MAX);
            }
            takes_dyn(&c2, key);
        }
        ApiOp::Stats { n, len, ok } => {
            let s = SocketStats::default();
            s.incr_bytes_sent(*n);
            s.incr_packets_sent();
            s.incr_bytes_dropped(*n);
            s.incr_packets_dropped();
            let r: io::Result<usize> = if *ok { Ok(*len as usize) } else { Err(io::Error::new(io::ErrorKind::Other, "x")) };
            let _ = s.update(r, *len as usize);
            let st: SinkStats = (&s).into();
            let _ = format!("{:?} {:?}", st, s.clone());
            let _ = SinkStats::default().clone();
        }
        ApiOp::Writer { cap, term, writes } => {
            let cap = (*cap).min(BUF_LIMIT) as usize;
            let mut w = match term {
                Some(t) => MultiLineWriter::with_ending(Vec::new(), cap, t),
                None => MultiLineWriter::new(Vec::new(), cap),
            };
            for b in writes {
                let _ = w.write(b);
            }
            let _ = w.flush();
            let _ = format!("{:?}", w);
        }
        ApiOp::Udp { addr, buffered, metrics } => {
            let sock = match UdpSocket::bind("127.0.0.1:0") {
                Ok(s) => s,
                Err(_) => return,
            };
            let _ = sock.set_nonblocking(true);
            // IP literals, or strings that fail before any DNS lookup
            if addr % 7 == 6 {
                // a ToSocketAddrs that yields no address at all
                let none: [std::net::SocketAddr; 0] = [];
                let s2 = UdpSocket::bind("127.0.0.1:0");
                match buffered {
                    None => {
                        let _ = UdpMetricSink::from(&none[..], sock).map(|_| ());
                    }
                    Some(c) => {
                        let _ = BufferedUdpMetricSink::with_capacity(&none[..], sock, (*c).min(BUF_LIMIT) as usize).map(|_| ());
                        if let Ok(s2) = s2 {
                            let _ = BufferedUdpMetricSink::from(&none[..], s2).map(|_| ());
                        }
                    }
                }
                return;
            }
            let addr_s = match addr % 6 {
                0 => "127.0.0.1:9".to_string(),
                1 => "asdf".to_string(),
                2 => "".to_string(),
                3 => "127.0.0.1:0".to_string(),
                4 => "[::1]:9".to_string(),
                _ => "255.255.255.255:9".to_string(),
            };
            match buffered {
                None => {
                    if let Ok(s) = UdpMetricSink::from(addr_s.as_str(), sock) {
                        for m in metrics {
                            let _ = s.emit(m);
                        }
                        let _ = s.flush();
                        let _ = s.stats();
                        let _ = format!("{:?}", s);
                    }
                }
                Some(c) => {
                    let r = if *c == u32::MAX {
                        BufferedUdpMetricSink::from(addr_s.as_str(), sock)
                    } else {
                        BufferedUdpMetricSink::with_capacity(addr_s.as_str(), sock, (*c).min(BUF_LIMIT) as usize)
                    };
                    if let Ok(s) = r {
                        for m in metrics {
                            let _ = s.emit(m);
                        }
                        let _ = s.flush();
                        let _ = s.stats();
                        let _ = format!("{:?}", s);
                    }
                }
            }
        }
        ApiOp::Unix { buffered, metrics } => {
            let sock = match UnixDatagram::unbound() {
                Ok(s) => s,
                Err(_) => return,
            };
            let _ = sock.set_nonblocking(true);
            let path = "/nonexistent/verif/no-such.sock";
            match buffered {
                None => {
                    let s = UnixMetricSink::from(path, sock);
                    for m in metrics {
                        let _ = s.emit(m);
                    }
                    let _ = s.flush();
                    let _ = s.stats();
                    let _ = format!("{:?}", s);
                }
                Some(c) => {
                    let s = if *c == u32::MAX {
                        BufferedUnixMetricSink::from(path, sock)
                    } else {
                        BufferedUnixMetricSink::with_capacity(path, sock, (*c).min(BUF_LIMIT) as usize)
                    };
                    for m in metrics {
                        let _ = s.emit(m);
                    }
                    let _ = s.flush();
                    let _ = s.stats();
                    let _ = format!("{:?}", s);
                }
            }
        }
    }
}

/// Returns the first library panic (harness-injected ones are expected and
/// never reach the caller: they happen on the queuing sink's worker thread).
pub fn run_case(case: &ApiCase) -> Option<String> {
    for (i, op) in case.ops.iter().enumerate() {
        if let Err(p) = catch(|| run_op(op)) {
            if !p.contains(HARNESS_PANIC) {
                return Some(format!("op #{} {:?} panicked: {}", i, variant_name(op), p));
            } else {
                return Some(format!("op #{} {:?}: a wrapped-sink panic unwound into the caller: {}", i, variant_name(op), p));
            }
        }
    }
    None
}

pub fn variant_name(op: &ApiOp) -> &'static str {
    match op {
        ApiOp::Spy { .. } => "Spy",
        ApiOp::BufferedSpy { .. } => "BufferedSpy",
        ApiOp::Queuing { .. } => "Queuing",
        ApiOp::Error { .. } => "Error",
        ApiOp::Standalone { .. } => "Standalone",
        ApiOp::Client { .. } => "Client",
        ApiOp::Stats { .. } => "Stats",
        ApiOp::Writer { .. } => "Writer",
        ApiOp::Udp { .. } => "Udp",
        ApiOp::Unix { .. } => "Unix",
    }
}
