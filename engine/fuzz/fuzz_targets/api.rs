#![no_main]
// libFuzzer target `api`: bytes -> structured case (verif_core::fuzzdec) -> the
// same interpreter and oracle the proptest campaigns use. A finding aborts.
use libfuzzer_sys::fuzz_target;

fuzz_target!(|data: &[u8]| {
    if let Err(m) = verif_core::fuzzdec::check_api_bytes(data) {
        eprintln!("VERIF-FINDING target=api: {}", m);
        std::process::abort();
    }
});
