#![no_main]
// libFuzzer target `mlw`: bytes -> structured case (verif_core::fuzzdec) -> the
// same interpreter and oracle the proptest campaigns use. A finding aborts.
use libfuzzer_sys::fuzz_target;

fuzz_target!(|data: &[u8]| {
    if let Err(m) = verif_core::fuzzdec::check_mlw_bytes(data) {
        eprintln!("VERIF-FINDING target=mlw: {}", m);
        std::process::abort();
    }
});
