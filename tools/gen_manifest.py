#!/usr/bin/env python3
"""Regenerates /verif/MANIFEST.json from the table below (keeps it schema-valid)."""
import json, sys

# id -> (level category, technique, level text, level note, design ref)
P = {
 "C01": ("exploration", "property-based testing (proptest) + coverage-guided fuzzing (libFuzzer) against a reference renderer / round-trip parser",
         "Generated client configurations and calls over all 24 entry points x 3 call forms x all section combinations (macro form via the C17 engine) are compared byte-for-byte with an independent reference renderer, parsed back when delimiter-free, and compared with the standalone constructors. Exploration over an unbounded input space: finds violations, never proves absence.",
         "trusts std's f64 parser for numeral parse-back and the harness's own reference renderer", "DESIGN.md §3 C01, §2.1"),
 "C02": ("exploration", "property-based testing with edge-biased numeric generators and numeral parse-back oracle",
         "Edge-biased integers, finite f64 bit patterns and Durations clustered around both overflow boundaries; every numeral is parsed back (i128 / bit-identical f64), durations are recomputed in u128 from (secs, nanos); overflow must give InvalidInput and zero emits.",
         "trusts std's f64 parser; u128 arithmetic in the model", "DESIGN.md §3 C02"),
 "C03": ("fault_enumeration", "property-based testing over call histories with a scripted sink; exhaustive accept/refuse scripts for short histories",
         "Histories of calls on one client over a sink whose outcome per call is generated (accept with arbitrary count / refuse with any io::ErrorKind and a unique token); per call the sink log, handler log and result must agree. For call lists up to 7 calls all 2^n scripts are enumerated.",
         "handler calls outside the quiet form are not judged (the property does not state them)", "DESIGN.md §3 C03"),
 "C04": ("exploration", "property-based testing against a reference model of tag/container decoration",
         "Generated default-tag lists and container ids x consecutive calls with per-call tags and container overrides over all entries and forms; tag and container sections must equal the model.",
         "macro form covered by the C17 engine", "DESIGN.md §3 C04"),
 "C05": ("exploration", "property-based testing of operation histories against a FIFO trace oracle (framing rules), four seams; libFuzzer target mlw",
         "Generated (capacity, terminator, emit/flush history) on the public MultiLineWriter over a recording writer, the buffered spy sink, and real Unix/UDP sockets; every underlying write must be a whole-line concatenation within capacity or a lone oversized metric.",
         "UDP loopback delivery is assumed reliable for small datagrams drained after every operation; strict verdicts come from the in-process seams", "DESIGN.md §3 C05, §2.2"),
 "C06": ("exploration", "property-based testing of emit/flush/drop histories against a conservation model",
         "Same histories through the writer, StatsdClient over the buffered spy sink, and through a QueuingMetricSink wrapper: every acknowledged metric is written exactly once by the next successful flush or drop, buffered ones in order, second flush writes nothing.",
         "queue path waits for the worker to hand over each metric before flushing (harness-observed)", "DESIGN.md §3 C06"),
 "C07": ("fault_enumeration", "property-based testing with generated fault scripts; exhaustive fail/succeed trees for short histories",
         "Histories x fault scripts over the underlying writes (all-or-nothing, 13 error kinds with unique tokens, consecutive failures, bypass path, drop); thorough enumerates the whole fail/succeed tree for short op lists; bounded spy channel and a non-blocking Unix socket with a full receive queue as real injectors. A real-socket seam with pending errors (connected UDP socket, peer gone for a moment, receiver re-bound): no line arrives twice, a refused metric never arrives, acknowledged lines arrive exactly once after an Ok flush.",
         "partial (prefix) writes are outside the property and not generated", "DESIGN.md §3 C07"),
 "C08": ("exploration", "model-based (stateful) property testing with a harness-owned schedule; sampled concurrent producers",
         "Generated histories of emit/clone/drop/step on a queuing sink over a gated wrapped sink; a FIFO spec model predicts every hand-over; the harness owns the schedule of the worker via the gate. Concurrent producer mode samples OS schedules.",
         "liveness decided as 'within W of a state where the model proves the event due' (W=4s, only on the failing path)", "DESIGN.md §3 C08, §2.3"),
 "C09": ("exploration", "model-based property testing over capacity x occupancy x outcome patterns with a gated sink; small space enumerated",
         "Final-drop scenarios for every capacity/occupancy including a full bounded queue, outcome patterns {ok,err,panic}^k, drop position relative to worker progress; all accepted metrics delivered, wrapped sink released, drop returns while the gate is closed.",
         "release observed through Drop of the wrapped sink within W", "DESIGN.md §3 C09"),
 "C10": ("exploration", "model-based property testing with a closed gate; occupancy model; thread-identity check",
         "Histories against a gated (blocked) wrapped sink: emit returns within W, Ok(len) iff model occupancy < capacity, never runs the wrapped sink on a producer thread, scripted errors/panics never surface.",
         "capacity 0 (rendezvous) excluded from the exact acceptance rule", "DESIGN.md §3 C10"),
 "C11": ("fault_enumeration", "model-based property testing over {ok,err,panic}^n outcome patterns; exhaustive for short patterns",
         "Outcome patterns with panics at every position, consecutive panics, panics with a stop pending; all other metrics delivered once in order, panics() equals the number of injected panics.",
         "panic count compared at quiescent points (after the respawned worker has picked up the next metric or W elapsed)", "DESIGN.md §3 C11"),
 "C12": ("exploration", "randomised concurrency stress (sampling of OS schedules) with framing + conservation + per-thread order oracle",
         "2..16 threads share one client over buffered spy / Unix / UDP sinks with generated workloads and yield patterns; datagram stream must be whole lines, each acknowledged metric exactly once, per-thread order kept.",
         "samples OS schedules, not reproducible from the seed; contention witnessed is reported", "DESIGN.md §3 C12, §6"),
 "C13": ("exploration", "property-based testing over real local sockets with a decoy receiver",
         "Generated payloads (empty, multi-byte, up to the datagram limit) x blocking/non-blocking x buffered/unbuffered x capacities on 127.0.0.1 UDP and Unix datagram sockets; received datagrams compared with emitted bytes; decoy receiver must stay empty. UDP receiver closed and re-bound between generated phases, judged against an identical sink whose receiver stays (metamorphic: an unconnected socket cannot observe its peer).",
         "kernel loopback semantics", "DESIGN.md §3 C13"),
 "C14": ("exploration", "property-based testing of socket histories with receiver up/down faults; stats vs ground truth",
         "Histories with real send failures (closed receiver, oversize, EAGAIN) for the four socket sinks, also wrapped in a queuing sink and under concurrent emitters; stats() compared with datagrams received and errors returned. UDP receiver-restart histories: stats() equal to those of an identical sink whose receiver never goes away, after every call.",
         "drop-time write failures are not observable and not judged", "DESIGN.md §3 C14"),
 "C15": ("exploration", "model-based property testing of counters at quiescent points; sampler thread under load",
         "Queue histories with refused emits, panics, clones: submitted/drained/queued equal the model at every quiescent point; a sampler thread checks 0 <= queued <= submitted under load.",
         "sampler part samples OS schedules", "DESIGN.md §3 C15"),
 "C16": ("fault_enumeration", "model-based property testing over {ok,err}^n with handler log ordering; exhaustive for n<=8",
         "Outcome patterns with and without a configured handler: each wrapped-sink error is followed by exactly one handler call with that error on the worker thread before the next metric. The wrapped sink's flush() fails in half of the cases: that error is never a queued metric's, so the handler count must not move.",
         "", "DESIGN.md §3 C16"),
 "C17": ("exploration", "property-based differential testing in one fresh child process per generated global configuration",
         "Each generated (global client config, macro invocations) case runs in its own process; every macro line is compared with the reference renderer and with the explicit tagged-quiet-send chain; argument evaluation counted; unset state must panic.",
         "tag counts above 3 are not instantiated (static call sites)", "DESIGN.md §3 C17"),
 "C18": ("exploration", "controlled-scheduler exploration (bounded-exhaustive DFS + generated schedules) with a write-once-register spec and a vector-clock race checker",
         "Thread programs over set/get/is_set on a fresh holder run under a harness-owned scheduler through the cfg(cadence_verif) shim; small programs are enumerated exhaustively, larger ones sampled; results checked against a sequential spec and every cell access against happens-before derived from the orderings written in the source.",
         "single atomic location => SC exploration + HB check covers the C11 outcomes of this code", "DESIGN.md §3 C18, §2.4"),
 "C19": ("exploration", "property-based testing of long fault-free histories against greediness rules and first-fit packing count",
         "Long generated emit histories; every write during an emit must be forced (next item does not fit or exact fill), flush/drop writes carry everything pending, datagram count equals in-order first-fit packing.",
         "", "DESIGN.md §3 C19"),
 "C20": ("exploration", "coverage-guided fuzzing (libFuzzer, three structure-aware targets) + proptest decoders with catch_unwind oracle, overflow checks and debug assertions on",
         "Arbitrary constructor and call arguments (NaN/inf, Duration::MAX, empty and huge lists, capacity 0/1, any terminator) through fmt/mlw/api drivers; any panic not injected by the harness is a violation.",
         "buffer capacities <= 1 MiB and queue capacities <= 4096 (allocator aborts are std's contract)", "DESIGN.md §3 C20"),
}

BUILT = sys.argv[1:] if len(sys.argv) > 1 else []
HOOK_COMMITS = []
try:
    HOOK_COMMITS = [l.strip() for l in open('/verif/tools/hook_commits.txt') if l.strip()]
except FileNotFoundError:
    pass
try:
    BUILT = BUILT or [l.strip() for l in open('/verif/tools/built.txt') if l.strip()]
except FileNotFoundError:
    pass

checks = []
na = []
for pid in sorted(P):
    cat, tech, text, note, ref = P[pid]
    if pid in BUILT:
        checks.append({
            "property_id": pid,
            "quick_cmd": f"./check {pid} --tier quick",
            "thorough_cmd": f"./check {pid} --tier thorough",
            "evidence_file": f"/verif/evidence/{pid}.json",
            "replay_cmd_template": f"./check {pid} --replay {{path}}",
            "engine": "verif-engine",
            "level_claimed": {"category": cat, "text": text, "design_ref": ref},
            "level_note": note or "none beyond the harness itself",
            "technique": tech,
        })
    else:
        na.append({"property_id": pid, "reason": "check not built yet in this session (planned, see DESIGN.md §3); not claimed until its engine exists"})

m = {
    "version": 1,
    "setup_cmd": "cd /verif/engine && CARGO_NET_OFFLINE=true cargo build --release",
    "hooks": {
        "guard": "--cfg cadence_verif",
        "enable": "RUSTFLAGS/--cfg cadence_verif set in /verif/engine/.cargo/config.toml ([build] rustflags), applied to the path dependencies /repo/cadence and /repo/cadence-macros",
        "baseline_off_cmd": "cd /repo && cargo test --workspace --no-fail-fast --offline",
        "source_commits": HOOK_COMMITS,
        "add_only": True,
    },
    "engines": [
        {"name": "verif-engine", "path": "/verif/engine", "serves_properties": BUILT,
         "kind_free_text": "Rust: proptest TestRunner campaigns (sharded over 16 threads), exhaustive enumerators, gated-sink and controlled-scheduler harnesses, child-process macro engine; libFuzzer targets in /verif/fuzz call the same interpreters and oracles"},
    ],
    "checks": checks,
    "not_applicable": na,
    "notes": "All checks rebuild the engine against /repo's working tree (path dependencies) before running. Exit 2 = inconclusive (build failure/watchdog), never a verdict. VERIF_SEED selects the PRNG seed.",
}
json.dump(m, open('/verif/MANIFEST.json', 'w'), indent=1)
print("MANIFEST.json written:", len(checks), "checks,", len(na), "not claimed")
