#!/usr/bin/env python3
"""Confirm and evaluate a seeded change produced by an independent sub-agent.

usage: tools/seeded.py <worktree> <name> <property> [--checks C05,C06,...] [--all]

1. confirms in the scratch worktree: demo fails with the change, passes without,
   existing suite (minus the 2 known failures and the demo) passes with it;
2. stores patch.diff, the demo and meta.json under /verif/seeded/<name>/;
3. applies the patch to /repo (git apply), runs the quick checks, records which
   report a violation, and undoes it (git checkout -- .).
"""
import subprocess, sys, os, json, shutil, glob, time

KNOWN = ("test_metric_error_cause_io_error", "test_metric_error_description_io_error")
ALL = [f"C{i:02d}" for i in range(1, 21)]


def sh(cmd, cwd=None, timeout=3600):
    return subprocess.run(cmd, shell=True, capture_output=True, text=True, cwd=cwd, timeout=timeout)


def failed_tests(out):
    f = set()
    for l in out.splitlines():
        l = l.strip()
        if l.startswith("test ") and l.endswith("FAILED"):
            f.add(l.split()[1])
    return f


def main():
    wt, name, prop = sys.argv[1], sys.argv[2], sys.argv[3]
    checks = [prop]
    if "--checks" in sys.argv:
        checks = sys.argv[sys.argv.index("--checks") + 1].split(",")
    if "--all" in sys.argv:
        checks = ALL
    seed = os.path.join(wt, "SEED")
    patch = os.path.join(seed, "patch.diff")
    assert os.path.exists(patch), "no patch.diff"
    demos = [f for f in glob.glob(os.path.join(seed, "*.rs"))]
    meta = {"name": name, "breaks_property": prop, "worktree_confirmation": {}, "checks": {}}
    # where do the demos live in the worktree?
    placed = []
    for d in demos:
        base = os.path.basename(d)
        hits = [p for p in glob.glob(os.path.join(wt, "*", "tests", base))]
        placed += hits
    meta["demo_files"] = [os.path.relpath(p, wt) for p in placed]
    demo_tests = [os.path.splitext(os.path.basename(p))[0] for p in placed]
    demo_pkgs = [os.path.relpath(p, wt).split(os.sep)[0] for p in placed]

    def run_demo(repeat=1, load=False):
        # race-dependent demos are repeated (optionally under CPU load); rc != 0 if any run failed
        res = {}
        burners = []
        if load:
            burners = [subprocess.Popen(["python3", "-c", "import time\nt=time.time()\nwhile time.time()-t<240: pass"]) for _ in range(14)]
        try:
            for pkg, t in zip(demo_pkgs, demo_tests):
                fails, failed = 0, set()
                for _ in range(repeat):
                    r = sh(f"cargo test -p {pkg} --test {t} --offline 2>&1", cwd=wt)
                    if r.returncode != 0:
                        fails += 1
                        failed |= failed_tests(r.stdout)
                res[t] = {"rc": 1 if fails else 0, "runs": repeat, "failing_runs": fails, "failed": sorted(failed)}
        finally:
            for b in burners:
                b.kill()
        return res

    # state: change applied (as the agent left it)
    st = sh("git status --porcelain", cwd=wt).stdout
    r = sh(f"git apply -R --check {patch}", cwd=wt)
    if r.returncode != 0:
        # not applied? try to apply
        r2 = sh(f"git apply {patch}", cwd=wt)
        assert r2.returncode == 0, "patch neither applied nor applicable: " + r.stderr + r2.stderr
    with_change = run_demo()
    if all(v["rc"] == 0 for v in with_change.values()):
        # maybe a race-dependent demonstration: repeat, then repeat under load
        with_change = run_demo(repeat=4)
        if all(v["rc"] == 0 for v in with_change.values()):
            with_change = run_demo(repeat=4, load=True)
            meta["demo_needed_cpu_load"] = True
    suite = sh("cargo test --workspace --no-fail-fast --offline 2>&1", cwd=wt)
    ft = failed_tests(suite.stdout)
    other = sorted(t for t in ft if not t.endswith(KNOWN) and not any(k in t for k in KNOWN))
    # failures inside the demo are expected; everything else must pass
    demo_failed = set()
    for v in with_change.values():
        demo_failed |= set(v["failed"])
    # tests defined in the demo files themselves are never "unexpected"
    demo_src = " ".join(open(p).read() for p in placed)
    unexpected = [t for t in other if t not in demo_failed and ("fn " + t.split("::")[-1]) not in demo_src]
    sh(f"git apply -R {patch}", cwd=wt)
    racy = any(v.get("runs", 1) > 1 for v in with_change.values() if isinstance(v, dict))
    without_change = run_demo(repeat=3 if racy else 1, load=racy)
    sh(f"git apply {patch}", cwd=wt)
    meta["worktree_confirmation"] = {
        "demo_with_change": with_change,
        "demo_without_change": without_change,
        "suite_with_change_unexpected_failures": unexpected,
        "compiles": "error: could not compile" not in suite.stdout,
    }
    ok_demo = all(v["rc"] != 0 for v in with_change.values()) and all(v["rc"] == 0 for v in without_change.values()) and with_change
    meta["confirmed"] = bool(ok_demo and not unexpected and meta["worktree_confirmation"]["compiles"])
    print(json.dumps(meta["worktree_confirmation"], indent=1))
    print("confirmed:", meta["confirmed"])

    out = os.path.join("/verif/seeded", name)
    os.makedirs(out, exist_ok=True)
    shutil.copy(patch, os.path.join(out, "patch.diff"))
    for d in demos:
        shutil.copy(d, out)
    if os.path.exists(os.path.join(seed, "NOTES.md")):
        shutil.copy(os.path.join(seed, "NOTES.md"), os.path.join(out, "NOTES.md"))

    # run my checks against it
    assert sh("git -C /repo status --porcelain").stdout.strip() == "", "/repo not clean"
    r = sh(f"git -C /repo apply {patch}")
    assert r.returncode == 0, "patch does not apply to /repo: " + r.stderr
    try:
        for c in checks:
            t0 = time.time()
            r = sh(f"cd /verif && ./check {c} --tier quick")
            verdict = {0: "silent", 1: "VIOLATION", 2: "inconclusive"}.get(r.returncode, str(r.returncode))
            reason = [l.strip() for l in r.stdout.splitlines() if "reason:" in l]
            camp = [l.strip() for l in r.stdout.splitlines() if "campaign:" in l]
            meta["checks"][c] = {"result": verdict, "wall_s": round(time.time() - t0, 1), "campaign": camp[:1], "reason": [x[:300] for x in reason[:1]]}
            if r.returncode == 2:
                meta["checks"][c]["stderr"] = r.stderr[-400:]
            print(c, meta["checks"][c], flush=True)
    finally:
        sh("git -C /repo checkout -- .")
        sh("cd /verif/engine && cargo build --release")
    meta["what_ran"] = "tools/seeded.py: demo with/without change + full suite in the scratch worktree; git -C /repo apply patch.diff; ./check <ID> --tier quick for the listed checks; git -C /repo checkout -- ."
    json.dump(meta, open(os.path.join(out, "meta.json"), "w"), indent=1)
    print("stored in", out)


if __name__ == "__main__":
    main()
