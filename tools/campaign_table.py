#!/usr/bin/env python3
"""Print a markdown table of the campaigns each check ran, from evidence/*.json."""
import json, glob, os
print("| property | tier | campaigns (cases judged / non-trivial) | wall s |")
print("|---|---|---|---|")
for p in sorted(glob.glob("/verif/evidence/C*.json")):
    e = json.load(open(p))
    c = e["coverage"]
    camps = "; ".join(f"{k} {v['evaluations']}/{v['nontrivial']}" for k, v in sorted(c.get("campaigns", {}).items()))
    extra = []
    if "exhaustive_part" in c:
        ep = c["exhaustive_part"]
        extra.append("exhaustive part: " + (json.dumps(ep) if not isinstance(ep, str) else ep)[:160])
    for k, v in c.items():
        if k.startswith("libfuzzer_") and k.endswith("_executions"):
            extra.append(f"{k}={v}")
    print(f"| {e['property_id']} | {e['tier']} | {camps}{' — ' + '; '.join(extra) if extra else ''} | {e['wall_s']:.1f} |")
