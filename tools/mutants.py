#!/usr/bin/env python3
"""Sensitivity runs: apply one small semantic change to /repo's working tree,
run the quick check(s) of the targeted properties, expect exit 1, revert.

usage: tools/mutants.py [--tests] [--only ID[,ID]] [--props C05,C06]
  --tests  also run the repository's own test suite on the mutant (must still pass)
Nothing is ever committed in /repo; the tree is restored with `git checkout -- .`.
"""
import subprocess, sys, os, json, time

REPO = "/repo"

# (id, [properties expected to detect], file, old, new)
M = [
 # ---- fmt family
 ("fmt-type-code-swap", ["C01"], "cadence/src/builder.rs",
  'MetricType::Meter => "m".fmt(f),', 'MetricType::Meter => "g".fmt(f),'),
 ("fmt-sections-swapped", ["C01"], "cadence/src/builder.rs",
  "        self.write_container_id(&mut metric_string);\n        self.write_timestamp(&mut metric_string);",
  "        self.write_timestamp(&mut metric_string);\n        self.write_container_id(&mut metric_string);"),
 ("fmt-prefix-no-trim", ["C01"], "cadence/src/client.rs",
  "format!(\"{}.\", prefix.trim_end_matches('.'))", "format!(\"{}.\", prefix.strip_suffix('.').unwrap_or(prefix))"),
 ("fmt-tag-sep", ["C01", "C04"], "cadence/src/builder.rs",
  "                if i > 0 {\n                    out.push(',');\n                }\n                if let Some(key) = key {",
  "                if i > 1 {\n                    out.push(',');\n                }\n                if let Some(key) = key {"),
 ("fmt-packed-sep-dup", ["C01", "C02"], "cadence/src/builder.rs",
  "        if i > 0 {\n            f.write_char(':')?;\n        }\n        value.fmt(f)?;",
  "        if i > 0 && i != 7 {\n            f.write_char(':')?;\n        }\n        value.fmt(f)?;"),
 ("val-ms-boundary", ["C02"], "cadence/src/client.rs",
  "        let as_millis = self.as_millis();\n        if as_millis > u64::MAX as u128 {",
  "        let as_millis = self.as_millis();\n        if as_millis >= u64::MAX as u128 {"),
 ("val-ns-vec-any-first", ["C02"], "cadence/src/client.rs",
  "if self.iter().any(|x| x.as_nanos() > u64::MAX as u128) {",
  "if self.iter().take(3).any(|x| x.as_nanos() > u64::MAX as u128) {"),
 ("val-i32-narrow", ["C02"], "cadence/src/client.rs",
  "impl ToCounterValue for u32 {\n    fn try_to_value(self) -> MetricResult<MetricValue> {\n        Ok(MetricValue::Unsigned(self.into()))",
  "impl ToCounterValue for u32 {\n    fn try_to_value(self) -> MetricResult<MetricValue> {\n        Ok(MetricValue::Signed((self as i32).into()))"),
 ("val-float-precision", ["C02"], "cadence/src/builder.rs",
  "            MetricValue::Float(v) => v.fmt(f),", "            MetricValue::Float(v) => write!(f, \"{:.12}\", v),"),
 ("val-rate-f32", ["C02"], "cadence/src/builder.rs",
  'let _ = write!(out, "|@{}", rate);', 'let _ = write!(out, "|@{}", rate as f32);'),
 ("val-timer-micros", ["C02"], "cadence/src/client.rs",
  "                self.iter().map(|x| x.as_millis() as u64).collect(),",
  "                self.iter().map(|x| ((x.as_micros() + 500) / 1000) as u64).collect(),"),
 ("out-quiet-double-handler", ["C03"], "cadence/src/builder.rs",
  "                if let Err(e) = self.try_send() {\n                    client.consume_error(e);",
  "                if let Err(e) = self.try_send() {\n                    if e.kind() == ErrorKind::IoError { client.consume_error(MetricError::from((ErrorKind::IoError, \"io\"))); }\n                    client.consume_error(e);"),
 ("out-error-source-dropped", ["C03"], "cadence/src/client.rs",
  "        self.sink.emit(metric_string)?;\n        Ok(())",
  "        self.sink.emit(metric_string).map_err(|e| std::io::Error::new(e.kind(), e.to_string()))?;\n        Ok(())"),
 ("out-retry-on-error", ["C03"], "cadence/src/client.rs",
  "        self.sink.emit(metric_string)?;\n        Ok(())",
  "        if self.sink.emit(metric_string).is_err() {\n            self.sink.emit(metric_string)?;\n        }\n        Ok(())"),
 ("out-swallow-invalid-quiet", ["C03"], "cadence/src/builder.rs",
  "            BuilderRepr::Error(err, client) => client.consume_error(err),",
  "            BuilderRepr::Error(err, client) => { if err.kind() != ErrorKind::InvalidInput { client.consume_error(err) } }"),
 ("decor-set-no-defaults", ["C04", "C01"], "cadence/src/client.rs",
  "            Ok(v) => MetricBuilder::from_fmt(MetricFormatter::set(&self.prefix, key, v), self)\n                .with_tags(self.tags())",
  "            Ok(v) => MetricBuilder::from_fmt(MetricFormatter::set(&self.prefix, key, v), self)"),
 ("decor-container-sticky", ["C04", "C01"], "cadence/src/builder.rs",
  "            if let Some(container_id) = container_id {\n                formatter.with_container_id(container_id);",
  "            if let Some(container_id) = container_id {\n                if formatter.tags.len() != 3 { formatter.with_container_id(container_id); }"),
 ("decor-defaults-reversed-when-3", ["C04", "C01"], "cadence/src/client.rs",
  "        self.tags.iter().map(|(k, v)| (k.as_deref(), v.as_str()))",
  "        let rev = self.tags.len() == 3;\n        let mut v: Vec<_> = self.tags.iter().map(|(k, v)| (k.as_deref(), v.as_str())).collect();\n        if rev { v.reverse(); }\n        v"),
 # ---- writer family
 ("mlw-required-no-term", ["C05", "C19"], "cadence/src/io.rs",
  "        let required = buf.len() + self.line_ending.len();", "        let required = buf.len() + 1;"),
 ("mlw-written-not-counted", ["C05"], "cadence/src/io.rs",
  "            self.written += write2;", "            self.written += write2.min(1);"),
 ("mlw-bypass-ge", ["C05", "C19"], "cadence/src/io.rs",
  "        if required > self.capacity {", "        if required >= self.capacity && self.capacity > 0 {"),
 ("mlw-bypass-appends-term", ["C05", "C06"], "cadence/src/io.rs",
  "            Ok(self.inner.get_mut().write(buf)?)",
  "            let n = self.inner.get_mut().write(buf)?;\n            if buf.len() > 2 * self.capacity { let _ = self.inner.get_mut().write(&self.line_ending); }\n            Ok(n)"),
 ("mlw-flush-no-reset-on-exact", ["C19", "C05"], "cadence/src/io.rs",
  "        self.inner.flush()?;\n        self.written = 0;",
  "        self.inner.flush()?;\n        if self.written != self.capacity { self.written = 0; }"),
 ("mlw-left-le", ["C19"], "cadence/src/io.rs",
  "            if left < required {", "            if left <= required {"),
 ("mlw-return-both", ["C06"], "cadence/src/io.rs",
  "            Ok(write1)\n", "            Ok(if self.written == self.capacity { write1 + write2 } else { write1 })\n"),
 ("mlw-reset-before-flush", ["C07"], "cadence/src/io.rs",
  "        self.inner.flush()?;\n        self.written = 0;", "        self.written = 0;\n        self.inner.flush()?;"),
 ("mlw-buffer-despite-flush-error", ["C07"], "cadence/src/io.rs",
  "            if left < required {\n                self.flush()?;\n            }",
  "            if left < required {\n                let _ = self.flush();\n            }"),
 ("mlw-fabricated-error", ["C07"], "cadence/src/io.rs",
  "            if left < required {\n                self.flush()?;\n            }",
  "            if left < required {\n                self.flush().map_err(|e| io::Error::new(e.kind(), \"flush failed\"))?;\n            }"),
 ("spy-flush-noop-when-small", ["C06"], "cadence/src/sinks/spy.rs",
  "    fn flush(&self) -> io::Result<()> {\n        let mut writer = self.writer.lock().unwrap();\n        writer.flush()\n    }",
  "    fn flush(&self) -> io::Result<()> {\n        let mut writer = self.writer.lock().unwrap();\n        let _ = &mut writer;\n        Ok(())\n    }"),
 ("client-flush-noop", ["C06"], "cadence/src/client.rs",
  "        Ok(self.sink.flush()?)", "        Ok(())"),
 ("spy-default-size", ["C05"], "cadence/src/sinks/spy.rs",
  "const DEFAULT_BUFFER_SIZE: usize = 512;", "const DEFAULT_BUFFER_SIZE: usize = 500;"),
]


def sh(cmd, **kw):
    return subprocess.run(cmd, shell=True, capture_output=True, text=True, **kw)


def main():
    args = sys.argv[1:]
    run_tests = "--tests" in args
    only = None
    props_filter = None
    scale = os.environ.get("VERIF_SCALE_PCT", "100")
    for i, a in enumerate(args):
        if a == "--only":
            only = set(args[i + 1].split(","))
        if a == "--props":
            props_filter = set(args[i + 1].split(","))
    st = sh(f"git -C {REPO} status --porcelain").stdout.strip()
    if st:
        print("refusing: /repo working tree is not clean:\n" + st)
        sys.exit(2)
    extra = []
    try:
        sys.path.insert(0, os.path.dirname(__file__))
        import mutants_extra
        extra = mutants_extra.M
    except ImportError:
        pass
    results = []
    for (mid, props, file, old, new) in M + extra:
        if only and mid not in only:
            continue
        if props_filter and not (set(props) & props_filter):
            continue
        path = os.path.join(REPO, file)
        src = open(path).read()
        if src.count(old) == 0:
            # the block may have been moved one level deeper (Worker::run after fix 0c182fc)
            re_in = lambda t: "\n".join(("    " + l if l.strip() else l) for l in t.split("\n"))
            if src.count(re_in(old)) == 1:
                old, new = re_in(old), re_in(new)
        if src.count(old) != 1:
            print(f"[{mid}] SKIP: pattern occurs {src.count(old)} times in {file}")
            results.append((mid, "pattern-missing", {}))
            continue
        try:
            open(path, "w").write(src.replace(old, new))
            row = {}
            if run_tests:
                t = sh(f"cd {REPO} && cargo test --workspace --no-fail-fast --offline 2>&1 | grep -E '^test .* FAILED' | sort")
                failed = [l for l in t.stdout.splitlines() if "test_metric_error_cause_io_error" not in l and "test_metric_error_description_io_error" not in l]
                row["tests"] = "pass" if not failed else "FAIL:" + ";".join(failed)[:200]
            for p in props:
                if props_filter and p not in props_filter:
                    continue
                t0 = time.time()
                r = sh(f"cd /verif && VERIF_SCALE_PCT={scale} ./check {p} --tier quick")
                row[p] = {0: "MISSED", 1: "caught", 2: "inconclusive"}.get(r.returncode, f"rc={r.returncode}")
                if r.returncode == 1:
                    reason = [l for l in r.stdout.splitlines() if "reason:" in l]
                    row[p] += f" ({time.time()-t0:.0f}s) " + (reason[0].strip()[:160] if reason else "")
                elif r.returncode == 2:
                    row[p] += " " + r.stderr.strip()[-300:]
            results.append((mid, "ran", row))
            print(f"[{mid}] {json.dumps(row)}", flush=True)
        finally:
            sh(f"git -C {REPO} checkout -- .")
    missed = [(m, r) for (m, s, r) in results if s == "ran" and any(str(v).startswith("MISSED") for v in r.values())]
    print(f"\n{len(results)} mutants, {len(missed)} with a missed target")
    for m, r in missed:
        print("  MISSED:", m, r)
    # rebuild the engine against the restored tree so that later runs are fast
    sh("cd /verif/engine && cargo build --release")


if __name__ == "__main__":
    main()
