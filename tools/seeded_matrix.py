#!/usr/bin/env python3
"""Re-run every stored seeded change (seeded/*/patch.diff) against the quick check of
the property it breaks (and, with --all-listed, every check recorded in its meta.json).
Applies each patch to /repo's working tree and restores it afterwards."""
import subprocess, sys, os, json, glob, time

def sh(cmd, **kw):
    return subprocess.run(cmd, shell=True, capture_output=True, text=True, **kw)

def main():
    assert sh("git -C /repo status --porcelain").stdout.strip() == "", "/repo not clean"
    all_listed = "--all-listed" in sys.argv
    only = [a for a in sys.argv[1:] if not a.startswith("--")]
    rows = []
    for meta_path in sorted(glob.glob("/verif/seeded/*/meta.json")):
        d = os.path.dirname(meta_path)
        m = json.load(open(meta_path))
        if only and m["name"] not in only:
            continue
        target = m.get("actually_breaks", m["breaks_property"])
        checks = list(m["checks"].keys()) if all_listed else [target]
        r = sh(f"git -C /repo apply {d}/patch.diff")
        if r.returncode != 0:
            rows.append((m["name"], "patch does not apply"))
            continue
        try:
            res = {}
            for c in checks:
                t0 = time.time()
                rr = sh(f"cd /verif && ./check {c} --tier quick")
                res[c] = {0: "silent", 1: "VIOLATION", 2: "inconclusive"}.get(rr.returncode, str(rr.returncode)) + f" ({time.time()-t0:.0f}s)"
            rows.append((m["name"], res, target))
            print(m["name"], res, flush=True)
        finally:
            sh("git -C /repo checkout -- .")
    sh("cd /verif/engine && cargo build --release")
    missed = [r for r in rows if isinstance(r[1], dict) and not r[1].get(r[2], "").startswith("VIOLATION")]
    print(f"\n{len(rows)} seeded changes; target check silent for: {[r[0] for r in missed]}")
    json.dump(rows, open("/verif/seeded/MATRIX.json", "w"), indent=1)

if __name__ == "__main__":
    main()
